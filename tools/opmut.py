#!/venv/bin/python
"""opmut.py [--files a.py,b.py] [--kinds cmp,off1] [--limit N] [--jobs J]

Systematic first-order mutation campaign over the package source (never in /repo: every mutant lives in a
scratch clone).  Mutation operators:
  cmp   strictness flip of every comparison   <  <->  <=     >  <->  >=
  off1  every integer literal 1 or 2 in an arithmetic / slice / range position:  1 -> 0 and 1 -> 2, 2 -> 1 and 2 -> 3
For each mutant: (1) the repository's own suite must still pass (else the mutant is 'killed by repo tests' and
is of no interest), (2) the quick checks anchored on the mutated file are run with VERIF_STOP_ON_FIRST=1 until
one reports a VIOLATION.  Survivors are listed in mutants/OPMUT.md for triage (equivalent mutant vs gap).
"""
import os, sys, io, ast, json, time, shutil, tokenize, subprocess, tempfile

V = os.path.dirname(os.path.dirname(os.path.abspath(__file__)))
SRC = '/repo/src/kneeliverse'
CHECKS = {
    'rdp.py': ['C01', 'C05', 'C04', 'C06', 'C07'],
    'linear_fit.py': ['C17', 'C16', 'C04', 'C05'],
    'metrics.py': ['C16', 'C04'],
    'evaluation.py': ['C15', 'C19', 'C06'],
    'multi_knee.py': ['C02'],
    'curvature.py': ['C09', 'C03', 'C02'],
    'dfdt.py': ['C09', 'C03', 'C02'],
    'menger.py': ['C09', 'C17', 'C03'],
    'lmethod.py': ['C09', 'C03', 'C02'],
    'kneedle.py': ['C03', 'C02', 'C20'],
    'zmethod.py': ['C10', 'C20'],
    'clustering.py': ['C11', 'C12'],
    'postprocessing.py': ['C13', 'C12', 'C14', 'C08'],
    'knee_ranking.py': ['C17', 'C12', 'C13'],
    'convex_hull.py': ['C18', 'C12'],
}
FLIP = {'<': '<=', '<=': '<', '>': '>=', '>=': '>'}


def func_lines(src):
    """line -> enclosing function name (mutants outside functions are skipped)."""
    tree = ast.parse(src)
    m = {}
    for node in ast.walk(tree):
        if isinstance(node, (ast.FunctionDef, ast.AsyncFunctionDef)):
            for l in range(node.lineno, node.end_lineno + 1):
                m.setdefault(l, node.name)
                m[l] = node.name if node.lineno >= getattr(m, '_', 0) else m[l]
    return m


def docstring_lines(src):
    out = set()
    for node in ast.walk(ast.parse(src)):
        if isinstance(node, (ast.FunctionDef, ast.ClassDef, ast.Module)) and node.body and isinstance(node.body[0], ast.Expr) \
                and isinstance(getattr(node.body[0], 'value', None), ast.Constant) and isinstance(node.body[0].value.value, str):
            out.update(range(node.body[0].lineno, node.body[0].end_lineno + 1))
    return out


def mutants(fname, kinds):
    src = open(os.path.join(SRC, fname)).read()
    fl = func_lines(src)
    doc = docstring_lines(src)
    toks = list(tokenize.generate_tokens(io.StringIO(src).readline))
    lines = src.splitlines(True)
    out = []
    for i, t in enumerate(toks):
        (r, c), (r2, c2) = t.start, t.end
        if r not in fl or r in doc or r != r2:
            continue
        line = lines[r - 1]
        if line.lstrip().startswith('#') or 'logger.' in line:
            continue
        reps = []
        if 'cmp' in kinds and t.type == tokenize.OP and t.string in FLIP:
            # skip type-annotation arrows etc. (not OPs in FLIP) - all FLIP ops are comparisons
            reps = [FLIP[t.string]]
        if 'off1' in kinds and t.type == tokenize.NUMBER and t.string in ('1', '2'):
            prev = toks[i - 1].string if i else ''
            nxt = toks[i + 1].string if i + 1 < len(toks) else ''
            if prev in ('+', '-', '[', ':', ',', '(', '>', '<', '>=', '<=', '==') or nxt in ('+', '-', ']', ':', ')'):
                reps = ['0', '2'] if t.string == '1' else ['1', '3']
        for rep in reps:
            new = line[:c] + rep + line[c2:]
            msrc = ''.join(lines[:r - 1] + [new] + lines[r:])
            out.append({'file': fname, 'line': r, 'col': c, 'func': fl[r], 'old': t.string, 'new': rep, 'text': line.strip(), 'src': msrc})
    return out


def run(cmd, env=None, timeout=3600, cwd=None):
    try:
        p = subprocess.run(cmd, capture_output=True, text=True, env=env, timeout=timeout, cwd=cwd)
        return p.returncode, p.stdout + p.stderr
    except subprocess.TimeoutExpired:
        return 124, 'timeout'


def main():
    a = sys.argv[1:]
    files, kinds, limit, start = sorted(CHECKS), ['cmp'], None, 0
    while a:
        if a[0] == '--files':
            files = a[1].split(','); a = a[2:]
        elif a[0] == '--kinds':
            kinds = a[1].split(','); a = a[2:]
        elif a[0] == '--limit':
            limit = int(a[1]); a = a[2:]
        elif a[0] == '--start':
            start = int(a[1]); a = a[2:]
        else:
            a = a[1:]
    scratch = tempfile.mkdtemp(prefix='opmut_')
    repo = os.path.join(scratch, 'repo')
    subprocess.check_call(['git', 'clone', '-q', '--no-hardlinks', '/repo', repo])
    ev = os.path.join(scratch, 'ev'); os.makedirs(ev)
    allm = []
    for f in files:
        allm += mutants(f, kinds)
    allm = allm[start:]
    if limit:
        allm = allm[:limit]
    print('mutants: %d' % len(allm), flush=True)
    rows = []
    outp = os.path.join(V, 'mutants', 'OPMUT-%s.md' % '-'.join(kinds))
    for mi, m in enumerate(allm):
        path = os.path.join(repo, 'src', 'kneeliverse', m['file'])
        orig = open(path).read()
        open(path, 'w').write(m['src'])
        t0 = time.time()
        verdict, by, sig = None, '', ''
        try:
            compile(m['src'], path, 'exec')
        except SyntaxError:
            verdict = 'invalid'
        if verdict is None:
            rc, out = run(['/venv/bin/python', '-m', 'pytest', '-q', '-x', '-p', 'no:cacheprovider', 'test'], env=dict(os.environ, PYTHONPATH=os.path.join(repo, 'src')), timeout=600, cwd=repo)
            if rc == 1:
                verdict = 'killed-by-repo-tests'
            elif rc != 0:
                verdict = 'repo-tests-rc%d' % rc
        if verdict is None:
            verdict = 'SURVIVED'
            for c in CHECKS[m['file']]:
                env = dict(os.environ, KNEE_REPO=repo, VERIF_SEED='0', VERIF_EVIDENCE_DIR=ev, VERIF_REPLAY_DIR=ev, VERIF_STOP_ON_FIRST='1')
                rc, out = run([os.path.join(V, 'check'), c, 'quick'], env=env, timeout=1800)
                if rc == 1:
                    verdict, by = 'detected', c
                    sg = [l.strip().split('signature=')[1].split(' occurrences')[0] for l in out.splitlines() if 'signature=' in l]
                    sig = sg[0] if sg else ''
                    break
                if rc not in (0, 1):
                    verdict, by = 'harness-rc%d' % rc, c
                    sig = out[-300:].replace('\n', ' ')
                    break
        open(path, 'w').write(orig)
        row = (m['file'], m['line'], m['func'], '%s -> %s' % (m['old'], m['new']), m['text'][:90].replace('|', '/'), verdict, by, sig[:80], round(time.time() - t0))
        rows.append(row)
        print(mi, row, flush=True)
        with open(outp, 'w') as fh:
            fh.write('# First-order mutation campaign (%s)\n\nGenerated by tools/opmut.py on scratch clones.  `killed-by-repo-tests` mutants are of no interest; '
                     '`detected` = a quick check reported a VIOLATION; `SURVIVED` = triage needed (see DESIGN.md 10.7).\n\n' % ','.join(kinds))
            n = {}
            for r in rows:
                n[r[5]] = n.get(r[5], 0) + 1
            fh.write('Summary: %s\n\n| file | line | function | mutation | source line | verdict | by | signature | s |\n|---|---|---|---|---|---|---|---|---|\n' % n)
            for r in rows:
                fh.write('| %s | %s | %s | `%s` | `%s` | %s | %s | %s | %s |\n' % r)
    shutil.rmtree(scratch, ignore_errors=True)


if __name__ == '__main__':
    main()
