#!/bin/bash
# validate_seed.sh <seed_out_dir>   : confirms in a fresh scratch worktree that
#  (1) repo tests pass with the patch, (2) demo passes without, (3) demo fails with.
d=$1; id=$(basename $d); wt=/tmp/val_$id
git -C /repo worktree remove --force $wt >/dev/null 2>&1
git -C /repo worktree add -q --detach $wt HEAD || exit 2
cd $wt
echo "files touched: $(grep '^+++ ' $d/patch.diff | tr '\n' ' ')"
a=$(PYTHONPATH=$wt/src timeout 600 /venv/bin/python $d/demo.py 2>&1 | tail -3); ra=$?
ra=$(PYTHONPATH=$wt/src timeout 600 /venv/bin/python $d/demo.py >/dev/null 2>&1; echo $?)
git apply $d/patch.diff || { echo "PATCH DOES NOT APPLY"; git -C /repo worktree remove --force $wt; exit 2; }
t=$(PYTHONPATH=$wt/src /venv/bin/python -m pytest -q -p no:cacheprovider test 2>&1 | tail -1)
rb=$(PYTHONPATH=$wt/src timeout 600 /venv/bin/python $d/demo.py >/tmp/val_$id.out 2>&1; echo $?)
echo "demo clean exit=$ra ; tests with patch: $t ; demo patched exit=$rb ($(grep -m1 -i fail /tmp/val_$id.out | cut -c1-200))"
cd /; git -C /repo worktree remove --force $wt
[ "$ra" = 0 ] && [ "$rb" != 0 ] && echo "$t" | grep -q "98 passed" && echo "SEED-VALID $id" || echo "SEED-INVALID $id"
