#!/venv/bin/python
"""mkmut.py <name> <relative file under src/kneeliverse> <old> <new> [count]: writes /verif/mutants/manual/<name>.diff
(the edit is made on a scratch copy of the file from /repo HEAD, never in /repo)."""
import sys, os, subprocess, tempfile, difflib
name, rel, old, new = sys.argv[1:5]
cnt = int(sys.argv[5]) if len(sys.argv) > 5 else 1
path = 'src/kneeliverse/' + rel
src = subprocess.check_output(['git', '-C', '/repo', 'show', 'HEAD:' + path]).decode()
old = old.encode().decode('unicode_escape'); new = new.encode().decode('unicode_escape')
assert src.count(old) == cnt, 'expected %d occurrence(s) of %r, found %d' % (cnt, old, src.count(old))
dst = src.replace(old, new)
d = ''.join(difflib.unified_diff(src.splitlines(True), dst.splitlines(True), 'a/' + path, 'b/' + path))
os.makedirs('/verif/mutants/manual', exist_ok=True)
open('/verif/mutants/manual/%s.diff' % name, 'w').write(d)
print('wrote', name)
