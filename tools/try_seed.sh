#!/bin/bash
# try_seed.sh <patch.diff> <tier> <prop> [<prop>...] : apply to /repo, run checks, always revert.
p=$1; tier=$2; shift 2
cd /repo && git diff --quiet || { echo "/repo dirty"; exit 2; }
git -C /repo apply $p || exit 2
for c in "$@"; do
  out=$(cd /verif && VERIF_SEED=${VERIF_SEED:-0} ./check $c $tier 2>&1); rc=$?
  echo "== $c $tier exit=$rc"; echo "$out" | grep -E "VIOLATION|signature=|input=|HARNESS|KNOWN" | head -8; echo "$out" | tail -3 | head -1
done
git -C /repo checkout -- . ; git -C /repo status --short | head -3
