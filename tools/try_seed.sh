#!/bin/bash
# try_seed.sh <patch.diff> <tier> <prop> [<prop>...] : apply to /repo, run checks, always revert.
# Evidence files are saved and restored around the run (evidence must come from the unchanged tree).
p=$1; tier=$2; shift 2
cd /repo && git diff --quiet || { echo "/repo dirty"; exit 2; }
bk=$(mktemp -d /tmp/evbk.XXXX); cp -a /verif/evidence/. $bk/ 2>/dev/null
git -C /repo apply $p || { rm -rf $bk; exit 2; }
for c in "$@"; do
  out=$(cd /verif && VERIF_SEED=${VERIF_SEED:-0} ./check $c $tier 2>&1); rc=$?
  echo "== $c $tier exit=$rc"; echo "$out" | grep -E "VIOLATION|signature=|input=|HARNESS|KNOWN" | head -${LINES_MAX:-8}; echo "$out" | grep -E "^C[0-9]+ (quick|thorough)" | head -1
done
git -C /repo checkout -- . ; git -C /repo status --short | head -3
rm -f /verif/evidence/*.json; cp -a $bk/. /verif/evidence/; rm -rf $bk; rm -f /verif/replays/*.json
