#!/bin/bash
# try_clone.sh <patch.diff> <tier> <prop> [<prop>...] : like try_seed.sh but on a scratch clone of /repo (KNEE_REPO), so
# that /repo and /verif/evidence are never touched and several runs can go on in parallel.
p=$1; tier=$2; shift 2
d=$(mktemp -d /tmp/clone.XXXX); git clone -q --no-hardlinks /repo $d/repo; [ -n "$BASE" ] && git -C $d/repo checkout -q $BASE
git -C $d/repo apply $p || { echo "PATCH DOES NOT APPLY"; rm -rf $d; exit 2; }
t=$(cd $d/repo && PYTHONPATH=$d/repo/src /venv/bin/python -m pytest -q -p no:cacheprovider test 2>&1 | tail -1)
echo "repo tests on the clone: $t"
mkdir -p $d/ev
for c in "$@"; do
  out=$(cd ${VERIF_DIR:-/verif} && KNEE_REPO=$d/repo VERIF_EVIDENCE_DIR=$d/ev VERIF_REPLAY_DIR=$d/ev VERIF_SEED=${VERIF_SEED:-0} ./check $c $tier 2>&1); rc=$?
  echo "== $c $tier exit=$rc"; echo "$out" | grep -E "VIOLATION|signature=|input=|detail=|HARNESS|Traceback|Error" | cut -c1-400 | head -${LINES_MAX:-12}; echo "$out" | grep -E "^C[0-9]+ (quick|thorough)" | cut -c1-200
done
rm -rf $d
