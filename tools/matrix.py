#!/venv/bin/python
"""matrix.py [--seeds 0,1] [--only <substr>] : runs every kept property-breaking change (seeded/*/patch.diff,
mutants/manual/*.diff, mutants/fixes/*.diff) and every property-preserving change (mutants/silent/*.diff) against
the quick check(s) of the property it targets, on a scratch COPY of /repo (never /repo itself), and writes
mutants/RESULTS.md.  Evidence / replay files of these runs go to a scratch directory."""
import os, sys, json, glob, shutil, subprocess, tempfile, time

V = os.path.dirname(os.path.dirname(os.path.abspath(__file__)))
FIX_TARGET = {'29ce6a3': ['C01'], 'e31a45c': ['C01', 'C05'], 'c75ec4a': ['C01', 'C17'], '51f217d': ['C17'], '9e66eb4': ['C17', 'C03', 'C09'],
              'bab2494': ['C02', 'C03', 'C08', 'C20'], 'bb329f6': ['C18', 'C12', 'C08', 'C20'], '3904cd4': ['C18'], '63fdadc': ['C09'],
              'e8fdd78': ['C14'], 'ffa2935': ['C20'], '3828315': ['C20'], 'ce0c2df': ['C19'], '9b608cf': ['C20'], '7a10436': ['C20'], 'a0d84ac': ['C20'],
              'e03a9be': ['C20'], '929fac7': ['C20'], '093a52b': ['C20'], 'ef89f5e': ['C20'], '43252cb': ['C09'], '81e485c': ['C20'], '6e5b659': ['C20']}
REFACTOR_BASE = '3828315'     # the property-preserving rewrites of wave R1 were written against this /repo commit
REFACTOR_BASE2 = 'ef89f5e'    # wave R2
REFACTOR_SKIP = {'C20r': 'overlaps the D15 repairs: on its base commit the large-integer family of C20 reports the original overflow; verified with the C20 check of /verif commit 64714fb (DESIGN.md 10.6)'}
EXTRA = {'c06-cache-key-left-only': ['C06', 'C15'], 'c08-corner-positions': ['C08', 'C13']}


def patches():
    out = []
    for d in sorted(glob.glob(V + '/seeded/*/')):
        m = json.load(open(d + 'meta.json'))
        out.append(('seeded/' + m['id'], d + 'patch.diff', m['detected_by'], 'break'))
    for f in sorted(glob.glob(V + '/mutants/manual/*.diff')):
        n = os.path.basename(f)[:-5]
        out.append(('manual/' + n, f, EXTRA.get(n, ['C20'] if n.startswith('i64-') else ['C' + n[1:3]]), 'break'))
    for f in sorted(glob.glob(V + '/mutants/fixes/*.diff')):
        c = os.path.basename(f)[7:-5]
        out.append(('fixes/revert-' + c, f, FIX_TARGET[c], 'break'))
    for f in sorted(glob.glob(V + '/mutants/silent/*.diff')):
        n = os.path.basename(f)[:-5]
        out.append(('silent/' + n, f, ['C20'] if n.startswith('i64-') else ['C' + n[1:3]], 'silent'))
    for d in sorted(glob.glob(V + '/mutants/refactors/C*/')):
        n = os.path.basename(d.rstrip('/'))
        if n not in REFACTOR_SKIP:
            out.append(('refactors/' + n, d + 'patch.diff', [n[:3]], 'silent@' + (REFACTOR_BASE if n.endswith('r') else REFACTOR_BASE2)))
    return out


def main():
    seeds = [0]
    only = None
    a = sys.argv[1:]
    while a:
        if a[0] == '--seeds':
            seeds = [int(x) for x in a[1].split(',')]; a = a[2:]
        elif a[0] == '--only':
            only = a[1]; a = a[2:]
        else:
            a = a[1:]
    rows = []
    scratch = tempfile.mkdtemp(prefix='mx_')
    ev = os.path.join(scratch, 'ev'); os.makedirs(ev)
    for name, path, checks, kind in patches():
        if only and not any(o in name for o in only.split(',')):
            continue
        repo = os.path.join(scratch, 'repo')
        shutil.rmtree(repo, ignore_errors=True)
        subprocess.check_call(['git', 'clone', '-q', '--no-hardlinks', '/repo', repo])
        if '@' in kind:
            subprocess.check_call(['git', '-C', repo, 'checkout', '-q', kind.split('@')[1]])
            kind = 'silent'
        r = subprocess.run(['git', '-C', repo, 'apply', path], capture_output=True, text=True)
        if r.returncode:
            rows.append((name, kind, '-', '-', 'PATCH-DOES-NOT-APPLY', ''))
            print(rows[-1], flush=True)
            continue
        for c in checks:
            for sd in seeds:
                env = dict(os.environ, KNEE_REPO=repo, VERIF_SEED=str(sd), VERIF_EVIDENCE_DIR=ev, VERIF_REPLAY_DIR=ev)
                if kind == 'break':
                    env['VERIF_STOP_ON_FIRST'] = '1'        # the verdict is all that matters here
                t = time.time()
                p = subprocess.run([os.path.join(V, 'check'), c, 'quick'], capture_output=True, text=True, env=env)
                sigs = [l.strip().split('signature=')[1].split(' occurrences')[0] for l in p.stdout.splitlines() if 'signature=' in l][:2]
                verdict = {0: 'silent', 1: 'VIOLATION', 2: 'HARNESS-ERROR'}.get(p.returncode, 'rc=%d' % p.returncode)
                good = (verdict == 'VIOLATION') if kind == 'break' else (verdict == 'silent')
                rows.append((name, kind, c, sd, verdict + ('' if good else '  <-- UNEXPECTED'), '; '.join(sigs)))
                print(rows[-1], round(time.time() - t), flush=True)
        shutil.rmtree(repo, ignore_errors=True)
    shutil.rmtree(scratch, ignore_errors=True)
    out = os.path.join(V, 'mutants', 'RESULTS.md' if not only else 'RESULTS-partial.md')
    with open(out, 'w') as fh:
        fh.write('# Detection matrix\n\nGenerated by tools/matrix.py (each change applied to a scratch clone of /repo, quick tier).\n'
                 '`break` rows must be VIOLATION, `silent` rows (property-preserving refactors / equivalent mutants) must stay silent.\n\n'
                 '| change | kind | check | seed | verdict | first signatures |\n|---|---|---|---|---|---|\n')
        for r in rows:
            fh.write('| %s | %s | %s | %s | %s | %s |\n' % r)
    bad = [r for r in rows if 'UNEXPECTED' in r[4] or 'APPLY' in r[4]]
    print('rows=%d unexpected=%d' % (len(rows), len(bad)))
    for r in bad:
        print('UNEXPECTED', r)


if __name__ == '__main__':
    main()
