#!/usr/bin/env python3
"""keep_seed.py <id> <wave-text> <breaks> <detected_by,comma> <first_run> : copies /tmp/seed_out/<id> to seeded/<id> with meta.json."""
import sys, json, shutil, os
sid, wave, breaks, det, first = sys.argv[1:6]
src = f'/tmp/seed_out/{sid}'; dst = f'/verif/seeded/{sid}'
os.makedirs(dst, exist_ok=True)
for f in ('patch.diff', 'demo.py', 'notes.md'):
    shutil.copy(f'{src}/{f}', f'{dst}/{f}')
meta = {"id": sid, "property": sid[:3], "breaks": breaks,
        "origin": f"independent sub-agent ({wave}), given only the property text and a scratch worktree",
        "needs_to_manifest": open(f'{src}/notes.md').read()[:900],
        "validated": "tools/validate_seed.sh: repo suite 98 passed with the patch; demo.py exits 0 on the clean tree and 1 with the patch (fresh scratch worktree)",
        "detected_by": [d for d in det.split(',') if d], "first_run": first,
        "detected_how": "tools/try_clone.sh <patch> quick <Cnn> (scratch clone of /repo) -> exit 1 with VIOLATION lines"}
json.dump(meta, open(f'{dst}/meta.json', 'w'), indent=1)
print('kept', dst)
