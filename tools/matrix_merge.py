#!/venv/bin/python
"""matrix_merge.py <log>...: rebuilds mutants/RESULTS.md from the row lines printed by tools/matrix.py runs (a later log
overrides an earlier one for the same change / check / seed; rows whose change no longer exists in that category are dropped)."""
import sys, os, ast, glob
V = os.path.dirname(os.path.dirname(os.path.abspath(__file__)))
rows = {}
for f in sys.argv[1:]:
    for line in open(f):
        if not line.startswith('('):
            continue
        t = ast.literal_eval(line[:line.rindex(')') + 1])
        rows[(t[0],)] = rows.get((t[0],), {})
        rows[(t[0],)][(t[2], t[3])] = t
def exists(name):
    cat, n = name.split('/', 1)
    if cat == 'seeded':
        m = '%s/seeded/%s/meta.json' % (V, n)
        return os.path.exists(m) and bool(__import__('json').load(open(m)).get('detected_by'))
    if cat == 'refactors':
        return os.path.exists('%s/mutants/refactors/%s/patch.diff' % (V, n))
    return os.path.exists('%s/mutants/%s/%s.diff' % (V, cat, n))
out = []
for (name,), d in sorted(rows.items()):
    if not exists(name):
        continue
    good = [t for t in d.values() if 'APPLY' not in t[4]]
    for t in (good or list(d.values())):
        out.append(t)
with open(V + '/mutants/RESULTS.md', 'w') as fh:
    fh.write('# Detection matrix\n\nRows printed by tools/matrix.py (each change applied to a scratch clone of /repo, quick tier), merged by tools/matrix_merge.py from '
             'the logs in mutants/logs/.\n`break` rows must be VIOLATION, `silent` rows (property-preserving refactors / equivalent mutants) must stay silent.\n\n'
             '| change | kind | check | seed | verdict | first signatures |\n|---|---|---|---|---|---|\n')
    for t in out:
        fh.write('| %s | %s | %s | %s | %s | %s |\n' % tuple(t[:6]))
bad = [t for t in out if 'UNEXPECTED' in t[4] or 'APPLY' in t[4]]
print('rows=%d unexpected=%d' % (len(out), len(bad)))
for t in bad:
    print('UNEXPECTED', t)
