#!/bin/bash
# rebase_patches.sh [old-base]: re-bases every stored patch (seeded/*/patch.diff, mutants/{manual,silent}/*.diff) that no
# longer applies to /repo HEAD because a later fix: commit changed its context.  The patch is applied on the old base
# in a scratch clone, committed and cherry-picked onto HEAD; the stored patch is replaced only if that succeeds.
old=${1:-3828315}
d=$(mktemp -d /tmp/rebase.XXXX); git clone -q --no-hardlinks /repo $d/repo; cd $d/repo
git config user.email x@x; git config user.name x
head=$(git rev-parse HEAD)
for p in /verif/seeded/*/patch.diff /verif/mutants/manual/*.diff /verif/mutants/silent/*.diff; do
  git checkout -q -f $head; git clean -fdq
  if git apply --check $p 2>/dev/null; then continue; fi
  git checkout -q -f $old
  if ! git apply $p 2>/dev/null; then echo "DOES NOT APPLY ON OLD BASE: $p"; continue; fi
  git add -A; git commit -q -m seed; c=$(git rev-parse HEAD)
  git checkout -q -f $head
  if git cherry-pick $c >/dev/null 2>&1; then git diff HEAD~1 HEAD > $p; echo "rebased: $p"
  else git cherry-pick --abort; echo "CONFLICT: $p"; fi
done
cd /; rm -rf $d
