#!/bin/bash
# allquick.sh <seed> [<seed>...] : every quick check on the tree as it is, one line per check (for silence testing)
cd "$(dirname "$0")/.."
for s in "$@"; do
  for i in $(seq -w 1 20); do
    t0=$(date +%s)
    out=$(VERIF_SEED=$s VERIF_EVIDENCE_DIR=${VERIF_EVIDENCE_DIR:-/tmp/ev_allquick} VERIF_REPLAY_DIR=${VERIF_REPLAY_DIR:-/tmp/ev_allquick} ./check C$i quick 2>&1); rc=$?
    echo "seed=$s C$i exit=$rc $(( $(date +%s) - t0 ))s $(echo "$out" | grep -E '^C[0-9]+ quick' | cut -c1-160)"
    [ $rc -ne 0 ] && echo "$out" | grep -E "VIOLATION|signature|input=|detail|HARNESS" | head -12
  done
done
