#!/bin/bash
# refresh_evidence.sh : re-runs every quick check on /repo as it is (seed 0), so that the committed evidence comes
# from the current code, then validates MANIFEST.json and every evidence file against the schemas.
cd "$(dirname "$0")/.."
git -C /repo diff --quiet || { echo "/repo has uncommitted changes"; exit 2; }
rc_all=0
for i in $(seq -w 1 20); do
  out=$(VERIF_SEED=0 ./check C$i quick 2>&1); rc=$?
  echo "C$i exit=$rc $(echo "$out" | grep -E '^C[0-9]+ quick' | cut -c1-170)"
  [ $rc -ne 0 ] && { rc_all=1; echo "$out" | grep -E "VIOLATION|signature|input=|HARNESS" | head; }
done
/venv/bin/python -m mc.manifest
python3-vt - <<'PY'
import json, glob, jsonschema
jsonschema.validate(json.load(open('/verif/MANIFEST.json')), json.load(open('/root/.vp/MANIFEST.schema.json')))
sch=json.load(open('/root/.vp/EVIDENCE.schema.json'))
for f in sorted(glob.glob('/verif/evidence/*.json')):
    e=json.load(open(f)); jsonschema.validate(e, sch)
    assert e['violations']==0 and e['tier']=='quick', f
print('manifest + %d evidence files valid' % len(glob.glob('/verif/evidence/*.json')))
PY
exit $rc_all
