#!/bin/bash
# allthorough.sh [seed] : every thorough check once (evidence to a scratch dir), one line per check
cd "$(dirname "$0")/.."
s=${1:-0}
for i in ${CHECKS:-$(seq -w 1 20)}; do
  t0=$(date +%s)
  out=$(VERIF_SEED=$s VERIF_EVIDENCE_DIR=${VERIF_EVIDENCE_DIR:-/tmp/ev_allthorough} VERIF_REPLAY_DIR=${VERIF_REPLAY_DIR:-/tmp/ev_allthorough} ./check C$i thorough 2>&1); rc=$?
  echo "seed=$s C$i thorough exit=$rc $(( $(date +%s) - t0 ))s $(echo "$out" | grep -E '^C[0-9]+ thorough' | cut -c1-200)"
  [ $rc -ne 0 ] && echo "$out" | grep -E "VIOLATION|signature|input=|detail|HARNESS|Traceback|Error" | head -12
done
