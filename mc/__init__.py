"""Bounded-exhaustive model checking of kneeliverse (see /verif/DESIGN.md)."""
