"""Shared helpers: calling the public API from JSON-able configurations, exception capture,
tolerances and the JIT warm-up."""
import numpy as np

from mc import core  # noqa: F401  (puts /repo/src first on sys.path)
from mc import monitor

import kneeliverse.rdp as rdp
import kneeliverse.metrics as metrics
import kneeliverse.linear_fit as lf
import kneeliverse.evaluation as evaluation

np.seterr(all='ignore')
EPS = float(np.finfo(float).eps)

DIST = {'shortest': rdp.Distance.shortest, 'perpendicular': rdp.Distance.perpendicular}
ORDER = {'triangle': rdp.Order.triangle, 'area': rdp.Order.area, 'segment': rdp.Order.segment}
METRIC = {m.value: m for m in metrics.Metrics}
METRIC_NAMES = ['smape', 'rpd', 'rmspe', 'rmsle', 'r2']
DIST_NAMES = ['shortest', 'perpendicular']
ORDER_NAMES = ['triangle', 'area', 'segment']


def is_r2(cost):
    return cost == 'r2'


def accepting(cost_name, value, t):
    """Is a cost value on the accepting side of t?  (cost < t, or R2 >= t)"""
    return value >= t if cost_name == 'r2' else value < t


def call_simplifier(func, pts, cfg):
    """Call one of the five simplifiers with a JSON-able configuration."""
    if func == 'rdp':
        return rdp.rdp(pts, t=cfg['t'], distance=DIST[cfg['distance']], cost=METRIC[cfg['cost']])
    if func == 'rdp_fixed':
        return rdp.rdp_fixed(pts, length=cfg['length'], distance=DIST[cfg['distance']], order=ORDER[cfg['order']])
    if func == 'grdp':
        return rdp.grdp(pts, t=cfg['t'], distance=DIST[cfg['distance']], cost=METRIC[cfg['cost']],
                        order=ORDER[cfg['order']])
    if func == 'mp_grdp':
        return rdp.mp_grdp(pts, t=cfg['t'], min_points=cfg['min_points'], distance=DIST[cfg['distance']],
                           cost=METRIC[cfg['cost']], order=ORDER[cfg['order']])
    if func == 'min_point_rdp':
        return rdp.min_point_rdp(pts, t=list(cfg['ts']), min_points=cfg['min_points'])
    raise KeyError(func)


def guarded(budget, fn, *args, **kw):
    """Run fn under the loop monitor.  Returns ('ok', value, maxloop) | ('hang', exc, count) |
    ('raise', exc, 0).  Exceptions of the code under test are data, not harness errors."""
    try:
        v, mx, _tot = monitor.run(budget, fn, *args, **kw)
        return 'ok', v, mx
    except monitor.StepBudgetExceeded as e:
        return 'hang', e, e.count
    except RecursionError as e:
        return 'hang', e, -1
    except Exception as e:  # noqa: BLE001
        return 'raise', e, 0


def exc_kind(e):
    return 'raises:%s' % type(e).__name__


def pts_key(xs, ys):
    return 'x=%s y=%s' % (list(xs), list(ys))


def cfg_key(cfg):
    return ' '.join('%s=%s' % (k, cfg[k]) for k in sorted(cfg))


def warm_metrics():
    """Compile the numba kernels for float64 (the only dtype they ever see: y and m*x+b are float) and
    for int64 y (integer input arrays) before forking workers."""
    import kneeliverse.metrics as m
    for dt in (np.float64, np.int64):
        y = np.array([1, 2, 3], dtype=dt)
        yh = np.array([1.0, 2.5, 3.0])
        for f in (m.rmse, m.rmsle, m.rmspe, m.rpd, m.residuals, m.smape):
            f(y, yh)
            f(yh, yh)
        m.r2(y, yh)
        m.r2(yh, yh)
        try:
            m.r2(yh, yh, m.R2.adjusted)
        except Exception:  # noqa: BLE001
            pass


def close(a, b, rel=1e-9, ab=0.0):
    return abs(a - b) <= ab + rel * max(abs(a), abs(b))
