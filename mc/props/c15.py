"""C15 - global reconstruction cost matches its definition and is cache-transparent.

Definition part: every curve x EVERY breakpoint set x 5 metrics against the reference accumulation
(mc/ref/evaluation_spec.py); the function is called both without a cache argument and with a fresh one
(so hidden state shared between calls shows up as a history-dependent violation); global RMSE vs RMSE
against linear interpolation; MIP / MAD.
History part: explicit-state BFS over cache histories.  State = the cache's whole content, frozen recursively (for the present layout: the key set, values being functions
of the key - asserted in every state), events = query(S) for every breakpoint set; the search starts from
the empty cache AND from the caches left behind by grdp runs (captured through the callable seam
evaluation.compute_global_cost, no source hook) and runs to closure.  Invariant on every transition: the
value is bit-identical to a fresh-cache evaluation.  Nothing is assumed about what the cache stores or under which keys.
"""
import math
import copy
import numpy as np

from mc import core, lib, curves, statespace
from mc.core import Failure
from mc.ref import evaluation_spec as es

import kneeliverse.evaluation as evaluation
import kneeliverse.rdp as rdp

ID = 'C15'
TITLE = 'Global reconstruction cost matches its definition and is cache-transparent'
RULE = ('definition part: cases = (curve, breakpoint set, metric), full product; history part: states = cache contents reached by BFS to closure, transitions = queries; '
        'non-trivial = a query that hits a non-empty cache (history) / a breakpoint set with at least one segment of >= 3 points (definition)')
ASSUMPTIONS = ['ratio metrics (smape, rpd, rmspe) are compared definitionally on curves with y >= 1 only (1-ulp noise of m*x+b is amplified to O(1) at y = 0)',
               'relative tolerance 1e-9 (+1e-12 absolute) against the math.fsum reference; cache transparency is bit-exact',
               'canonical state = key set: sound because every stored value is checked to equal the fresh recomputation of its key']
BOUNDS = {'quick': {'definition': 'P n=3..5 (ratio metrics), A n=3,4 + A12 n=5 (r2, rmsle); P, A12 n=4 with y*2^-30, y*2^-50, y*2^40; every breakpoint set', 'BFS': '24 curves n=5 x 5 metrics to closure; 4 curves n=6'},
          'thorough': {'definition': 'P n<=6, A n<=5, A12 n=6', 'BFS': '96 curves n=5, 32 curves n=6 (closure reached; n=7 has up to 2^21 key sets and is not attempted)'}}
TECHNIQUE = 'explicit-state BFS over cache histories of the real compute_global_cost (to closure) plus bounded-exhaustive definitional comparison over all breakpoint sets'
LEVEL_TEXT = ('Model checking: the cache is explored as a state machine - every query from every reachable cache state, including caches inherited from grdp - with bit-exact '
              'comparison against fresh evaluations; the value itself is checked against the definition for every breakpoint set of every small curve.')
LEVEL_NOTE = 'Bounded by n; the BFS reaches closure for the listed curves (state counts in the evidence).'

RATIO = ('smape', 'rpd', 'rmspe')


def units(tier, seed):
    u = []
    if tier == 'quick':
        plan = [('P', 3, 1), ('P', 4, 4), ('P', 5, 32), ('A', 3, 1), ('A', 4, 16), ('A12', 5, 32)]
        bfs = [(5, 24), (6, 4)]
    else:
        plan = [('P', 3, 1), ('P', 4, 4), ('P', 5, 16), ('P', 6, 256), ('A', 4, 8), ('A', 5, 128), ('A12', 6, 256)]
        bfs = [(5, 96), (6, 32)]
    for sy in (2.0 ** -30, 2.0 ** -50, 2.0 ** 40):
        for base, n, K in ((curves.P, 4, 4), (curves.A12, 4, 4)) + (((curves.P, 5, 16), (curves.A12, 5, 16)) if tier != 'quick' else ()):
            plan.append((curves.scaled(base, 1.0, sy).name, n, K))
    plan += [('Tweb0r', 8, 8), ('Tusr0s64', 9, 16)] if tier == 'quick' else [('Tweb0r', 10, 8), ('Tusr0s64', 11, 16)]
    for prof, n, K in plan:
        for k in range(K):
            u.append(('def', prof, n, k, K))
    for n, cnt in bfs:
        for j in range(cnt):
            u.append(('bfs', n, j, cnt, seed))
    return u


def WARM():
    lib.warm_metrics()


def close(a, b):
    if a != a or b != b:
        return (a != a) and (b != b)
    return abs(a - b) <= 1e-9 * max(abs(a), abs(b)) + 1e-12


def median(v):
    s = sorted(v)
    m = len(s)
    return s[m // 2] if m % 2 else 0.5 * (s[m // 2 - 1] + s[m // 2])


def check_def(xs, ys, S, metrics_list):
    n = len(xs)
    pts = curves.points(xs, ys)
    Sa = np.array(S)
    out = []
    base = {'oracle': 'def', 'x': list(xs), 'y': list(ys), 'S': list(S), 'metrics': list(metrics_list)}
    key0 = '%s breakpoints=%s' % (lib.pts_key(xs, ys), list(S))
    for metric in metrics_list:
        key = 'compute_global_cost[%s] %s' % (metric, key0)
        fn = 'evaluation.compute_global_cost'
        case = dict(base, metrics=[metric])
        try:
            v1 = float(evaluation.compute_global_cost(pts, Sa, lib.METRIC[metric]))
            v2 = float(evaluation.compute_global_cost(pts, list(S), lib.METRIC[metric], {}))
        except Exception as e:  # noqa: BLE001
            out.append(Failure(fn, lib.exc_kind(e), key, case, repr(e), (n, len(S))))
            continue
        try:
            ref = es.global_cost(metric, xs, ys, S, 'fsum')
        except (ValueError, OverflowError, ZeroDivisionError):
            continue
        if not close(v1, ref):
            out.append(Failure(fn, 'differs-from-definition', key, case, 'observed %r, definition %r' % (v1, ref), (n, len(S))))
        elif v1 != v2:
            out.append(Failure(fn, 'default-cache-vs-fresh-cache-differ', key, case, 'no cache argument: %r, fresh dict and list breakpoints: %r' % (v1, v2), (n, len(S))))
        elif v1 < 0:
            out.append(Failure(fn, 'negative', key, case, repr(v1), (n, len(S))))
        elif len(S) == n and v1 != (1.0 if metric == 'r2' else 0.0):
            out.append(Failure(fn, 'all-breakpoints-not-perfect', key, case, repr(v1), (n, len(S))))
    # global RMSE and MIP
    fn = 'evaluation.compute_global_rmse'
    key = 'compute_global_rmse ' + key0
    case = dict(base, metrics=[])
    try:
        r1 = float(evaluation.compute_global_rmse(pts, Sa))
        r2 = float(evaluation.compute_global_rmse(pts, list(S), {}))
        ref = es.global_rmse(xs, ys, S)
        if not close(r1, ref):
            out.append(Failure(fn, 'differs-from-rmse-of-interpolation', key, case, 'observed %r, definition %r' % (r1, ref), (n, len(S))))
        elif r1 != r2:
            out.append(Failure(fn, 'default-cache-vs-fresh-cache-differ', key, case, '%r vs %r' % (r1, r2), (n, len(S))))
    except Exception as e:  # noqa: BLE001
        out.append(Failure(fn, lib.exc_kind(e), key, case, repr(e), (n, len(S))))
    if len(S) >= 3:
        fn = 'evaluation.mip'
        key = 'mip ' + key0
        try:
            m, mad = evaluation.mip(pts, Sa)
            fin = es.global_rmse(xs, ys, S)
            ip = [es.global_rmse(xs, ys, [s for j, s in enumerate(S) if j != i]) - fin for i in range(1, len(S) - 1)]
            em = median(ip)
            emad = median([abs(v - em) for v in ip])
            sc = 1e-9 * max(abs(fin), max(abs(v) + abs(fin) for v in ip))      # differences of RMSEs: noise is relative to the RMSEs, not to the difference
            if abs(float(m) - em) > sc + 1e-9 * abs(em) + 1e-12 or abs(float(mad) - emad) > sc + 1e-9 * abs(emad) + 1e-12:
                out.append(Failure(fn, 'differs-from-definition', key, case, 'observed (%r, %r), definition (%r, %r)' % (float(m), float(mad), em, emad), (n, len(S))))
        except Exception as e:  # noqa: BLE001
            out.append(Failure(fn, lib.exc_kind(e), key, case, repr(e), (n, len(S))))
    return out


# ------------------------------------------------------------------------------------------------
# history part

def bfs_curve(n, j, seed):
    """Deterministic choice of the j-th BFS curve: spread over profile A12 (and P for ratio metrics)."""
    prof = curves.A12 if j % 2 == 0 else curves.P
    total = prof.size(n)
    idx = (j * 7919 + 104729 * (seed % 6) + 13) % total
    c = prof.coords(n, idx)
    return prof.name, c[0], c[1]


def grdp_caches(pts, metric):
    """Caches left behind by grdp runs, captured through the callable seam (the wrapper records the dict
    objects passed to compute_global_cost; nothing in the package source is touched)."""
    captured = []
    orig = evaluation.compute_global_cost

    def spy(points, reduced, cost=None, cache=None, *a, **kw):
        if cache is not None and not any(cache is c for c in captured):
            captured.append(cache)
        return orig(points, reduced, cost, cache, *a, **kw)

    out = []
    evaluation.compute_global_cost = spy
    try:
        for t in ((0.01, 0.3) if metric != 'r2' else (0.9, 0.99)):
            for order in ('segment', 'triangle'):
                del captured[:]
                try:
                    rdp.grdp(pts, t=t, cost=lib.METRIC[metric], order=lib.ORDER[order])
                except Exception:  # noqa: BLE001
                    continue
                for c in captured:
                    out.append(('grdp(t=%r,order=%s)' % (t, order), copy.deepcopy(c)))
    finally:
        evaluation.compute_global_cost = orig
    return out


def run_bfs(xs, ys, metric, res, label):
    n = len(xs)
    pts = curves.points(xs, ys)
    M = lib.METRIC[metric]
    events = [tuple(S) for S in curves.subsets_with_ends(n)]
    fresh = {}
    for S in events:
        fresh[S] = evaluation.compute_global_cost(pts, np.array(S), M, {})
    def step(cache, S):
        c = copy.deepcopy(cache)             # the layout of the cache is the implementation's business: nested containers are copied too
        try:
            v = evaluation.compute_global_cost(pts, np.array(S), M, c)
        except Exception as e:  # noqa: BLE001
            v = e
        return c, v

    def freeze(o):
        if isinstance(o, dict):
            return frozenset((freeze(k), freeze(v)) for k, v in o.items())
        if isinstance(o, (list, tuple)):
            return tuple(freeze(v) for v in o)
        if isinstance(o, (set, frozenset)):
            return frozenset(freeze(v) for v in o)
        if isinstance(o, np.ndarray):
            return (o.shape, o.tobytes())
        if isinstance(o, (float, np.floating)):
            return repr(float(o))
        try:
            hash(o)
            return o
        except TypeError:
            return repr(o)

    def canon(cache):
        # whole content (keys and values, recursively): two states are merged only if the dictionaries are equal,
        # whatever layout the implementation uses
        return freeze(cache)

    def invariant(cache, S, nxt, v):
        # the property: the value under a shared cache is bit-identical to the value under a fresh one.  (What
        # the implementation stores, and under which keys, is not constrained.)
        if isinstance(v, Exception):
            return 'raises %r' % v
        f = fresh[S]
        if not (v == f or (v != v and f != f)):
            return 'shared cache gives %r, fresh cache gives %r' % (v, f)
        return None

    initial = [('empty', {})] + grdp_caches(pts, metric)
    # inherited caches must themselves be consistent with fresh entries
    r = statespace.bfs(initial, events, step, canon, invariant)
    res.count('states', r['states'])
    res.count('transitions', r['transitions'])
    res.count('evaluations', r['transitions'])
    res.count('bfs_runs')
    res.count('bfs_initial_states', len(initial))
    res.maxi('bfs_max_states_one_curve', r['states'])
    res.maxi('bfs_depth', r['depth'])
    if r['capped']:
        res.count('bfs_capped')
    # non-trivial transitions: every query issued from a non-empty cache
    res.count('nontrivial', r['transitions'] - len(events))
    if not r['violations']:
        res.count('traces', r['transitions'])
    for hist, ev, bad in r['violations'][:3]:
        case = {'oracle': 'bfs', 'x': list(xs), 'y': list(ys), 'metric': metric, 'history': [list(h) if not isinstance(h, str) else h for h in hist], 'event': list(ev)}
        res.fail(Failure('evaluation.compute_global_cost', 'cache-not-transparent', '%s metric=%s history=%s query=%s' % (lib.pts_key(xs, ys), metric, list(hist), list(ev)),
                         case, bad, (n, len(hist))))
    return r


def run_unit(unit, res):
    if unit[0] == 'def':
        _, prof, n, k, K = unit
        P = curves.get(prof)
        mets = RATIO + ('r2', 'rmsle') if (prof.split('+')[0] == 'P' or prof.startswith('T')) else ('r2', 'rmsle')
        first = True
        for i, xs, ys in P.shard(n, k, K):
            for S in curves.subsets_with_ends(n):
                fs = check_def(xs, ys, S, mets)
                ncalls = 2 * len(mets) + 3
                res.count('evaluations', ncalls)
                res.count('definition_cases')
                for f in fs:
                    res.fail(f)
                if not fs:
                    res.count('traces', ncalls)
                if any(b - a >= 2 for a, b in zip(S, S[1:])):
                    res.count('nontrivial')
            if first:
                first = False
                res.sample({'definition': {'profile': prof, 'x': xs, 'y': ys, 'breakpoint_sets': 2 ** (n - 2), 'metrics': list(mets)}})
        res.notes['def_n_max_' + prof.split('+')[0]] = n
    else:
        _, n, j, cnt, seed = unit
        prof, xs, ys = bfs_curve(n, j, seed)
        mets = lib.METRIC_NAMES if prof == 'P' else ['r2', 'rmsle', 'smape']
        tot = 0
        for metric in mets:
            r = run_bfs(xs, ys, metric, res, prof)
            tot += r['states']
        if j < 2:
            res.sample({'bfs': {'x': xs, 'y': ys, 'metrics': list(mets), 'events': 2 ** (n - 2), 'states_reached': tot}})
        res.notes['bfs_n_max'] = n


def replay(case):
    if case['oracle'] == 'def':
        return check_def(case['x'], case['y'], case['S'], case['metrics'] or [])
    xs, ys, metric = case['x'], case['y'], case['metric']
    res = core.Result()
    try:
        run_bfs(xs, ys, metric, res, 'replay')
    except core.UnitAbort:
        pass
    out = []
    for sig, lst in res.viol.items():
        for t in lst:
            func, kind = sig.split('|', 1)
            out.append(Failure(func, kind, t[1], t[2], t[3]))
    return out
