"""C08 - the end-to-end pipeline yields valid, ordered knees of the original curve.

simplify -> multi-knee on the reduced curve -> worst-knee, corner and cluster filters -> index mapping,
composed exactly as demos/*.py do, for every small curve x 5 simplifiers x 5 detectors x 4 linkages x
4 ranking modes x thresholds, plus the bundled trace (and its windows).  Every stage runs under the loop
monitor; stage outputs are checked as values flowing between the public calls.
"""
import os
import numpy as np

from mc import core, lib, curves, monitor
from mc.core import Failure
import kneeliverse.rdp as rdp
import kneeliverse.postprocessing as pp
import kneeliverse.clustering as clustering
import kneeliverse.knee_ranking as kr
import kneeliverse.curvature as curvature
import kneeliverse.dfdt as dfdt
import kneeliverse.menger as menger
import kneeliverse.lmethod as lmethod
import kneeliverse.kneedle as kneedle

ID = 'C08'
TITLE = 'The end-to-end pipeline yields valid, ordered knees of the original curve'
RULE = ('cases = (curve, simplifier, detector, corner threshold, linkage, cluster threshold, ranking mode), full product below the bound; '
        'non-trivial = the final knee list is non-empty (something flowed through every stage)')
ASSUMPTIONS = ['stages are composed as in demos/*.py; intermediate results of earlier stages are reused across later configurations (purity is C20)',
               'coordinates compared exactly (indexing, no arithmetic)']
BOUNDS = {'quick': {'curves': 'A n=4 complete, A1 n=5,6, Y013 n=7, trace web0_reduced.csv (62 points)', 'configs': '6 simplifier configurations (min_point_rdp twice: threshold hit / fixed-size fallback) x 5 detectors x 3 (corner t, cluster t) x 4 linkages x 4 rankings = 1440', 'trace windows': 'every window of 16 points of web0_reduced.csv and of usr0.csv[::128]'},
          'thorough': {'curves': 'A n<=5 complete, A1 n=6,7, Y013 n=8, every window of length 12 and 20 of web0_reduced.csv and of usr0.csv[::64]', 'configs': 800}}
TECHNIQUE = 'bounded-exhaustive exploration of the composed pipeline (all stage configurations) on the real code under the loop monitor; stage-wise subsequence / mapping invariants'
LEVEL_TEXT = ('Model checking of the composition: every small curve and the bundled trace through all 800 simplifier x detector x filter configurations; completion, '
              'subsequence property of every filter, height order, strict increase and coordinate-exact index mapping checked on every run.')
LEVEL_NOTE = 'Bounded by n, alphabet and the listed thresholds.'

DET = {'curvature': curvature.multi_knee, 'dfdt': dfdt.multi_knee, 'menger': menger.multi_knee, 'lmethod': lmethod.multi_knee, 'kneedle': kneedle.multi_knee}
LINK = {'single': clustering.single_linkage, 'complete': clustering.complete_linkage, 'centroid': clustering.centroid_linkage, 'average': clustering.average_linkage}
RANK = {m.value: m for m in kr.ClusterRanking}
THR = [(0.33, 0.05), (0.5, 0.3), (0.33, 0.15)]
TRACES = os.path.join(core.REPO, 'traces')


def simplifiers(n):
    return [('rdp', {'t': 0.01, 'distance': 'shortest', 'cost': 'smape'}),
            ('rdp_fixed', {'length': max(n - 1, 2), 'distance': 'shortest', 'order': 'segment'}),
            ('grdp', {'t': 0.01, 'distance': 'shortest', 'cost': 'smape', 'order': 'segment'}),
            ('mp_grdp', {'t': 0.5, 'min_points': max(n - 1, 2), 'distance': 'perpendicular', 'cost': 'rpd', 'order': 'triangle'}),
            ('min_point_rdp', {'ts': [0.01, 0.001, 0.0001], 'min_points': 3}),
            ('min_point_rdp', {'ts': [0.5, 0.3], 'min_points': max(n - 1, 3)})]


def units(tier, seed):
    plan = [('A', 4, 96), ('A1', 5, 8), ('A1', 6, 32), ('Y013', 7, 32)] if tier == 'quick' else \
        [('A', 4, 32), ('A', 5, 1280), ('A1', 6, 16), ('A1', 7, 128), ('Y013', 8, 256)]
    b = curves.bonus(seed, curves.A1)
    plan.append((b.name, 5, 8))
    u = [('curves', prof, n, k, K) for prof, n, K in plan for k in range(K)]
    for si in range(6):
        for di in range(5):
            u.append(('trace', 'web0_reduced.csv', 0, 0, 1, si, di))
    if tier == 'thorough':
        for fname, stride in (('web0_reduced.csv', 1), ('usr0.csv', 64)):
            for w in (12, 20):
                for k in range(16):
                    u.append(('windows', fname, stride, w, k, 16))
    else:
        for k in range(16):
            u.append(('windows', 'web0_reduced.csv', 1, 16, k, 16))
            u.append(('windows', 'usr0.csv', 128, 16, k, 16))
    return u


def WARM():
    lib.warm_metrics()
    monitor.install()


def arr(v):
    return np.asarray(v)


def is_subseq(a, b):
    it = iter(b)
    return all(any(x == y for y in it) for x in a)


def run_pipeline(pts, sim, res, key0, base, only_det=None):
    """All detector x filter configurations downstream of one simplifier call."""
    n = len(pts)
    B = 4 * n + 8
    sname, scfg = sim
    size = (n, 0)

    def fail(func, kind, det='', extra='', detail=''):
        case = dict(base, simplifier=sname, scfg=scfg, detector=det, stage=extra)
        res.fail(Failure(func, kind, '%s simplifier=%s %s detector=%s %s' % (key0, sname, lib.cfg_key(scfg), det, extra), case, detail, size))

    st, v, _ = lib.guarded(B * 4, lib.call_simplifier, sname, pts, scfg)
    res.count('evaluations')
    if st != 'ok':
        fail('rdp.' + sname, 'non-termination' if st == 'hang' else lib.exc_kind(v), detail=repr(v))
        return
    reduced, removed = v
    reduced = arr(reduced)
    S = reduced.tolist()
    if not (len(S) >= 2 and all(a < b for a, b in zip(S, S[1:])) and S[0] == 0 and S[-1] == n - 1):
        fail('rdp.' + sname, 'malformed-reduction', detail=repr(S))
        return
    pr = pts[reduced]
    nr = len(pr)
    Br = 4 * nr + 8
    for dname, dfun in DET.items():
        if only_det is not None and dname != only_det:
            continue
        st, knees, _ = lib.guarded(Br, dfun, pr)
        res.count('evaluations')
        if st != 'ok':
            fail('%s.multi_knee' % dname, 'non-termination' if st == 'hang' else lib.exc_kind(knees), dname, detail=repr(knees))
            continue
        knees = arr(knees)
        K0 = knees.tolist()
        if K0 != sorted(set(K0)) or any(not (0 <= k <= nr - 1) for k in K0):
            fail('%s.multi_knee' % dname, 'knees-not-valid-positions-of-the-reduced-curve', dname, detail=repr(K0))
            continue
        try:
            tk = arr(pp.filter_worst_knees(pr, knees))
        except Exception as e:  # noqa: BLE001
            fail('postprocessing.filter_worst_knees', lib.exc_kind(e), dname, detail=repr(e))
            continue
        res.count('evaluations')
        K1 = tk.tolist()
        if not is_subseq(K1, K0):
            fail('postprocessing.filter_worst_knees', 'not-a-subsequence-of-its-input', dname, detail='%s from %s' % (K1, K0))
            continue
        h = [pr[int(k)][1] for k in K1]
        if any(b > a for a, b in zip(h, h[1:])):
            fail('postprocessing.filter_worst_knees', 'heights-increase-after-worst-knee-filter', dname, detail='knees %s heights %s' % (K1, h))
            continue
        for ct, clt in THR:
            try:
                ck = arr(pp.filter_corner_knees(pr, tk, t=ct))
            except Exception as e:  # noqa: BLE001
                fail('postprocessing.filter_corner_knees', lib.exc_kind(e), dname, 'corner_t=%r' % ct, repr(e))
                continue
            res.count('evaluations')
            K2 = ck.tolist()
            if not is_subseq(K2, K1):
                fail('postprocessing.filter_corner_knees', 'not-a-subsequence-of-its-input', dname, 'corner_t=%r' % ct, '%s from %s' % (K2, K1))
                continue
            for lname, lfun in LINK.items():
                for rname, rmode in RANK.items():
                    stage = 'corner_t=%r linkage=%s cluster_t=%r ranking=%s' % (ct, lname, clt, rname)
                    res.count('evaluations', 2)
                    res.count('states', 5)
                    res.count('transitions', 4)
                    try:
                        fk = arr(pp.filter_clusters(pr, ck, lfun, clt, rmode))
                    except Exception as e:  # noqa: BLE001
                        fail('postprocessing.filter_clusters', lib.exc_kind(e), dname, stage, repr(e))
                        continue
                    K3 = fk.tolist()
                    if not is_subseq(K3, K2):
                        fail('postprocessing.filter_clusters', 'not-a-subsequence-of-its-input', dname, stage, '%s from %s' % (K3, K2))
                        continue
                    st, final, _ = lib.guarded(B + 4 * len(K3), rdp.mapping, fk, reduced, removed)
                    if st != 'ok':
                        fail('rdp.mapping', 'non-termination' if st == 'hang' else lib.exc_kind(final), dname, stage, repr(final))
                        continue
                    F = arr(final).tolist()
                    ok = (len(F) == len(K3) and all(a < b for a, b in zip(F, F[1:])) and all(f in S for f in F)
                          and all(float(f) == int(f) and 0 <= f < n for f in F)
                          and all(pts[int(f)][0] == pr[int(k)][0] and pts[int(f)][1] == pr[int(k)][1] for f, k in zip(F, K3)))
                    if not ok:
                        fail('rdp.mapping', 'final-knees-not-the-retained-points-of-the-reduced-knees', dname, stage,
                             'reduced=%s reduced-space knees=%s mapped=%s' % (S, K3, F))
                        continue
                    hh = [pts[int(f)][1] for f in F]
                    if any(b > a for a, b in zip(hh, hh[1:])):
                        fail('pipeline', 'final-heights-increase', dname, stage, 'final %s heights %s' % (F, hh))
                        continue
                    res.count('traces')
                    if F:
                        res.count('nontrivial')


def load_trace(fname, stride):
    p = np.genfromtxt(os.path.join(TRACES, fname), delimiter=',')
    return p[::stride] if stride > 1 else p


def run_unit(unit, res):
    kind = unit[0]
    if kind == 'curves':
        _, prof, n, k, K = unit
        P = curves.get(prof)
        first = True
        for i, xs, ys in P.shard(n, k, K):
            pts = curves.points(xs, ys)
            base = {'oracle': 'pipeline', 'x': list(xs), 'y': list(ys)}
            for sim in simplifiers(n):
                run_pipeline(pts, sim, res, lib.pts_key(xs, ys), base)
            if first:
                first = False
                res.sample({'profile': prof, 'x': xs, 'y': ys, 'configurations': 800})
        res.notes['n_max_' + prof.split('+')[0]] = n
    elif kind == 'trace':
        _, fname, _a, _b, _c, si, di = unit
        pts = load_trace(fname, 1)
        n = len(pts)
        base = {'oracle': 'trace', 'file': fname, 'stride': 1, 'start': 0, 'length': n}
        run_pipeline(pts, simplifiers(n)[si], res, 'trace %s' % fname, base, only_det=list(DET)[di])
        if si == 0 and di == 0:
            res.sample({'trace': fname, 'points': n, 'configurations': 800})
    else:
        _, fname, stride, w, k, K = unit
        allp = load_trace(fname, stride)
        for start in range(k, len(allp) - w + 1, K):
            pts = allp[start:start + w].copy()
            base = {'oracle': 'trace', 'file': fname, 'stride': stride, 'start': start, 'length': w}
            for sim in simplifiers(w):
                run_pipeline(pts, sim, res, 'trace %s[::%d][%d:%d]' % (fname, stride, start, start + w), base)
        res.notes['trace_window_%s' % fname] = w


def replay(case):
    res = core.Result()
    if case['oracle'] == 'pipeline':
        pts = curves.points(case['x'], case['y'])
        key = lib.pts_key(case['x'], case['y'])
    else:
        allp = load_trace(case['file'], case['stride'])
        pts = allp[case['start']:case['start'] + case['length']].copy()
        key = 'trace'
    n = len(pts)
    sims = [s for s in simplifiers(n) if s[0] == case.get('simplifier')] or simplifiers(n)
    try:
        for sim in sims:
            run_pipeline(pts, sim, res, key, {k: case[k] for k in case if k not in ('simplifier', 'scfg', 'detector', 'stage')}, only_det=case.get('detector') or None)
    except core.UnitAbort:
        pass
    out = []
    for sig, lst in res.viol.items():
        func, kind = sig.split('|', 1)
        for t in lst:
            out.append(Failure(func, kind, t[1], t[2], t[3]))
    return out
