"""C07 - reduced-space indices map back to exactly the original indices.

Pure index structure: the space is finite and small, so it is enumerated *completely*:
all retained sets containing both ends (2^(n-2)), all strictly ascending position lists (2^|S|), all
non-decreasing lists of length <= 3, all row permutations of the removed table (sorted=False), int and
float tables; plus the (reduced, removed) pairs actually produced by every simplifier.
State = (retained set, query list, scan cursor); transition = one queried position mapped.
"""
import itertools
import numpy as np

from mc import core, lib, curves
from mc.core import Failure
import kneeliverse.rdp as rdp

ID = 'C07'
TITLE = 'Reduced-space indices map back to exactly the original indices'
RULE = ('cases = (retained set S, removed-table variant, position list I) enumerated completely below the bound; '
        'non-trivial = at least one point was dropped left of a queried position (the mapping must shift) ')
ASSUMPTIONS = ['mapping is only specified for ascending position lists (repeats allowed)',
               'point coordinates are irrelevant to mapping/compute_removed_points (only lengths are used)']
BOUNDS = {
    'quick': {'n_max_sets': 10, 'perm_rows_max': 5, 'multiset_len': 3, 'simplifier_profile': 'A n<=4, A1 n=5', 'operation_sequences': 'depth 2: every consecutive pair of simplifier calls of a unit, the earlier (reduced, removed) held and re-checked after the later call'},
    'thorough': {'n_max_sets': 13, 'perm_rows_max': 6, 'multiset_len': 4, 'simplifier_profile': 'A n<=5', 'operation_sequences': 'depth 2, as quick'},
}


def ref_removed(S):
    return [[S[i], S[i + 1] - S[i] - 1] for i in range(len(S) - 1)]


def units(tier, seed):
    nmax = 10 if tier == 'quick' else 13
    u = []
    for n in range(2, nmax + 1):
        K = 1 if n < 8 else (8 if n < 11 else 32)
        for k in range(K):
            u.append(('sets', n, k, K, tier))
    if tier == 'quick':
        sim = [('A', 2, 1), ('A', 3, 2), ('A', 4, 16), ('A1', 5, 8)]
    else:
        sim = [('A', 2, 1), ('A', 3, 2), ('A', 4, 8), ('A', 5, 64)]
    b = curves.bonus(seed)
    sim.append((b.name, 4, 8))
    for prof, n, K in sim:
        for k in range(K):
            u.append(('simp', prof, n, k, K))
    return u


def WARM():
    lib.warm_metrics()


# ------------------------------------------------------------------------------------------------
# oracles (also used by replay)

def check_mapping(n, S, removed_rows, I, sorted_flag, dtype):
    """One mapping() call against the definition reduced[I]."""
    reduced = np.array(S)
    removed = np.array(removed_rows, dtype=dtype if dtype != 'list' else 'int64').reshape(-1, 2)
    case = {'oracle': 'mapping', 'n': n, 'reduced': list(S), 'removed': [list(r) for r in removed_rows],
            'indexes': list(I), 'sorted': sorted_flag, 'dtype': dtype}
    key = 'reduced=%s removed=%s I=%s sorted=%s dtype=%s' % (list(S), [list(r) for r in removed_rows], list(I), sorted_flag, dtype)
    idx_arg = list(I) if dtype == 'list' else np.array(I, dtype=int)
    if dtype == 'list':
        removed = np.array(removed_rows, dtype='int64').reshape(-1, 2)
    st, v, _ = lib.guarded(4 * n + 8 + 4 * len(I), rdp.mapping, idx_arg, reduced, removed, sorted_flag)
    size = (n, len(I))
    if st == 'hang':
        return [Failure('rdp.mapping', 'non-termination', key, case, str(v), size)]
    if st == 'raise':
        return [Failure('rdp.mapping', lib.exc_kind(v), key, case, repr(v), size)]
    if dtype != 'list' and (idx_arg.tolist() != list(I) or reduced.tolist() != list(S) or removed.tolist() != np.array(removed_rows, dtype=removed.dtype).reshape(-1, 2).tolist()):
        return [Failure('rdp.mapping', 'overwrites-its-arguments', key, case, 'after the call: indexes=%s reduced=%s removed=%s' % (idx_arg.tolist(), reduced.tolist(), removed.tolist()), size)]
    if dtype == 'list' and idx_arg != list(I):
        return [Failure('rdp.mapping', 'overwrites-its-arguments', key, case, 'after the call: indexes=%s' % idx_arg, size)]
    exp = [S[i] for i in I]
    try:
        got = [int(a) for a in np.asarray(v).tolist()]
        ok = got == exp and all(float(a) == int(a) for a in np.asarray(v).tolist())
    except Exception as e:  # noqa: BLE001
        got, ok = repr(v), False
    if not ok:
        return [Failure('rdp.mapping', 'wrong-index', key, case, 'expected %s observed %s' % (exp, got), size)]
    return []


def check_removed_table(n, S):
    pts = np.array([[i, 0.0] for i in range(n)])
    case = {'oracle': 'removed_table', 'n': n, 'reduced': list(S)}
    key = 'n=%d reduced=%s' % (n, list(S))
    st, v, _ = lib.guarded(4 * n + 8, rdp.compute_removed_points, pts, np.array(S))
    if st != 'ok':
        return [Failure('rdp.compute_removed_points', 'non-termination' if st == 'hang' else lib.exc_kind(v), key, case, repr(v), (n, 0))]
    exp = ref_removed(S)
    got = np.asarray(v).tolist()
    if got != exp:
        return [Failure('rdp.compute_removed_points', 'wrong-table', key, case, 'expected %s observed %s' % (exp, got), (n, 0))]
    return []


def check_simplifier(func, xs, ys, cfg, full_lists):
    """(reduced, removed) of a simplifier: compute_removed_points reproduces the table, and mapping
    inverts it for every (strictly ascending) position list."""
    pts = curves.points(xs, ys)
    n = len(xs)
    case = {'oracle': 'simplifier', 'func': func, 'x': list(xs), 'y': list(ys), 'cfg': cfg, 'full_lists': full_lists}
    key = '%s %s %s' % (func, lib.pts_key(xs, ys), lib.cfg_key(cfg))
    budget = (4 * n + 8) * (len(cfg.get('ts', [])) + 2)
    st, v, _ = lib.guarded(budget, lib.call_simplifier, func, pts, cfg)
    if st != 'ok':
        return None, []    # termination / exceptions of simplifiers are C01's clause, not C07's
    reduced, removed = v
    _LAST[0] = None
    reduced0 = reduced
    reduced = np.asarray(reduced)
    S = [int(a) for a in reduced.tolist()]
    out = []
    if not (len(S) >= 2 and S[0] == 0 and S[-1] == n - 1 and all(a < b for a, b in zip(S, S[1:]))):
        return None, []    # malformed reduction: C01's clause
    st2, tab, _ = lib.guarded(4 * n + 8, rdp.compute_removed_points, pts, reduced)
    if st2 != 'ok':
        out.append(Failure('rdp.compute_removed_points', 'non-termination' if st2 == 'hang' else lib.exc_kind(tab), key, case, repr(tab), (n, 0)))
        return S, out
    a, b = np.asarray(tab, dtype=float), np.asarray(removed, dtype=float)
    _LAST[0] = {'spec': {'func': func, 'x': list(xs), 'y': list(ys), 'cfg': cfg}, 'reduced': reduced0, 'removed': removed, 'S': list(S), 'rows': b.tolist(), 'n': n}
    if a.shape != b.shape or not np.array_equal(a, b):
        out.append(Failure('rdp.compute_removed_points', 'differs-from-%s-table' % func, key, case,
                           'compute_removed_points=%s simplifier=%s' % (a.tolist(), b.tolist()), (n, 0)))
    lists = [list(range(len(S)))]
    if full_lists:
        pos = list(range(len(S)))
        lists = [list(c) for k in range(1, len(S) + 1) for c in itertools.combinations(pos, k)]
    for I in lists:
        st3, m, _ = lib.guarded(4 * n + 8 + 4 * len(I), rdp.mapping, np.array(I, dtype=int), reduced, removed)
        exp = [S[i] for i in I]
        if st3 != 'ok':
            out.append(Failure('rdp.mapping', 'non-termination' if st3 == 'hang' else lib.exc_kind(m), key, dict(case, indexes=I), repr(m), (n, len(I))))
            break
        got = np.asarray(m).tolist()
        if got != exp:
            out.append(Failure('rdp.mapping', 'wrong-index-on-%s-output' % func, key, dict(case, indexes=I),
                               'I=%s expected %s observed %s' % (I, exp, got), (n, len(I))))
            break
    return S, out


_LAST = [None]   # the (reduced, removed) pair returned by the latest simplifier call, still held by the "caller"


def verify_held(h, second):
    """Depth-2 operation sequence: a reduction obtained EARLIER and still held must map back exactly after a LATER simplifier call
    (returned tables must not share storage with later results)."""
    n, S = h['n'], h['S']
    case = {'oracle': 'held', 'first': h['spec'], 'second': second}
    key = 'held %s %s %s then %s %s %s' % (h['spec']['func'], lib.pts_key(h['spec']['x'], h['spec']['y']), lib.cfg_key(h['spec']['cfg']),
                                          second['func'], lib.pts_key(second['x'], second['y']), lib.cfg_key(second['cfg']))
    I = list(range(len(S)))
    st, m, _ = lib.guarded(4 * n + 8 + 4 * len(I), rdp.mapping, np.array(I, dtype=int), h['reduced'], h['removed'])
    got = np.asarray(m).tolist() if st == 'ok' else repr(m)
    rows = np.asarray(h['removed'], dtype=float).tolist()
    if got != S or rows != h['rows']:
        return [Failure('rdp.mapping', 'earlier-reduction-changed-by-a-later-call', key, case,
                        'held reduced=%s: mapping gives %s; table was %s and is now %s' % (S, got, h['rows'], rows), (n, len(S)))]
    return []


def replay_held(case):
    a, b = case['first'], case['second']
    _LAST[0] = None
    check_simplifier(a['func'], a['x'], a['y'], a['cfg'], False)
    h = _LAST[0]
    if h is None:
        return []
    check_simplifier(b['func'], b['x'], b['y'], b['cfg'], False)
    return verify_held(h, b)


def sim_configs(n):
    cfgs = []
    for t in (0.01, 0.5):
        cfgs.append(('rdp', {'t': t, 'distance': 'shortest', 'cost': 'smape'}))
        cfgs.append(('grdp', {'t': t, 'distance': 'shortest', 'cost': 'rpd', 'order': 'segment'}))
    cfgs.append(('rdp', {'t': 0.9, 'distance': 'perpendicular', 'cost': 'r2'}))
    for k in range(2, n + 1):
        cfgs.append(('rdp_fixed', {'length': k, 'distance': 'shortest', 'order': 'triangle'}))
    cfgs.append(('mp_grdp', {'t': 0.5, 'min_points': 3, 'distance': 'perpendicular', 'cost': 'smape', 'order': 'area'}))
    cfgs.append(('mp_grdp', {'t': 0.5, 'min_points': n, 'distance': 'shortest', 'cost': 'rmsle', 'order': 'segment'}))
    cfgs.append(('min_point_rdp', {'ts': [0.5, 0.1], 'min_points': 3}))
    return cfgs


def run_unit(unit, res):
    if unit[0] == 'sets':
        _, n, k, K, tier = unit
        perm_rows = 5 if tier == 'quick' else 6
        mlen = 3 if tier == 'quick' else 4
        for si, S in enumerate(curves.subsets_with_ends(n)):
            if si % K != k:
                continue
            rows = ref_removed(S)
            for f in check_removed_table(n, S):
                res.fail(f)
            res.count('evaluations')
            pos = list(range(len(S)))
            dropped_before = [sum(r[1] for r in rows if r[0] < S[i]) for i in pos]
            lists = [list(c) for kk in range(0, len(S) + 1) for c in itertools.combinations(pos, kk)]
            seen = set(tuple(l) for l in lists)
            for L in range(2, mlen + 1):
                for c in itertools.combinations_with_replacement(pos, L):
                    if c not in seen:
                        seen.add(c)
                        lists.append(list(c))
            for I in lists:
                for dtype in ('int64', 'float64', 'list'):
                    if dtype == 'list' and not I:
                        continue
                    fs = check_mapping(n, S, rows, I, True, dtype)
                    for f in fs:
                        res.fail(f)
                    res.count('evaluations')
                    res.count('states')
                    res.count('transitions', max(1, len(I)))
                    if not fs:
                        res.count('traces')
                    if I and dropped_before[I[-1]] > 0:
                        res.count('nontrivial')
            # sorted=False: every row order
            if 2 <= len(rows) <= perm_rows:
                qlists = [pos] + [[i] for i in pos] + ([list(c) for c in itertools.combinations(pos, 2)] if len(rows) <= 4 else [])
                for perm in itertools.permutations(rows):
                    if list(perm) == rows:
                        continue
                    for I in qlists:
                        fs = check_mapping(n, S, [list(r) for r in perm], I, False, 'int64')
                        for f in fs:
                            res.fail(f)
                        res.count('evaluations')
                        res.count('states')
                        res.count('transitions', len(I))
                        res.count('permuted')
                        if not fs:
                            res.count('traces')
                        if dropped_before[I[-1]] > 0:
                            res.count('nontrivial')
            if si == k and n >= 5:
                res.sample({'n': n, 'reduced': list(S), 'removed': rows, 'example_query': pos[1:], 'expect': list(S[1:])})
        res.notes['sets_n_max'] = n
    else:
        _, prof, n, k, K = unit
        P = curves.get(prof)
        cfgs = sim_configs(n)
        for i, xs, ys in P.shard(n, k, K):
            for func, cfg in cfgs:
                held = _LAST[0]
                S, fs = check_simplifier(func, xs, ys, cfg, full_lists=(n <= 5))
                if held is not None:
                    hf = verify_held(held, {'func': func, 'x': list(xs), 'y': list(ys), 'cfg': cfg})
                    res.count('held_pairs_rechecked')
                    res.count('transitions', len(held['S']))
                    fs = fs + hf
                for f in fs:
                    res.fail(f)
                res.count('evaluations')
                if S is None:
                    res.count('skipped_malformed_or_failed_simplifier')
                    continue
                res.count('states')
                res.count('transitions', len(S))
                res.count('simplifier_tables')
                if not fs:
                    res.count('traces')
                if len(S) < n:
                    res.count('nontrivial')
            if i == k:
                res.sample({'simplifier_case': {'x': xs, 'y': ys, 'configs': len(cfgs)}})


def replay(case):
    o = case['oracle']
    if o == 'mapping':
        return check_mapping(case['n'], case['reduced'], case['removed'], case['indexes'], case['sorted'], case['dtype'])
    if o == 'removed_table':
        return check_removed_table(case['n'], case['reduced'])
    if o == 'held':
        return replay_held(case)
    if o == 'simplifier':
        _, fs = check_simplifier(case['func'], case['x'], case['y'], case['cfg'], case.get('full_lists', True))
        return fs
    raise KeyError(o)

TECHNIQUE = 'bounded-exhaustive enumeration of all index structures (retained sets x position lists x row permutations) on the real code against the definition reduced[I]'
LEVEL_TEXT = ('Model checking by complete enumeration: every retained set with both ends for n <= 10 (13 thorough), every strictly '
              'ascending and short non-decreasing position list, every row order of the removed table (sorted=False), int and float tables, '
              'plus the tables produced by all five simplifiers on all small curves, each held across the next simplifier call and re-checked (depth-2 call histories); mapping is pure index arithmetic so the small-scope space is the whole behaviour.')
LEVEL_NOTE = 'Bounded by n (10/13) and by table rows for permutations (5/6); larger index structures are not explored. numpy is trusted.'
