"""C18 - convex-hull routines return the true hull.

Lower / upper chains: every curve of profile A up to the bound against the brute-force chain (index i is
on the lower chain iff it lies strictly below every chord (a, b), a < i < b; exact integer orientation).
graham_scan: EVERY subset (sizes 3..k) of the 4x4 lattice, in several row orders, which includes all fully
collinear sets and collinear runs on the boundary; brute-force O(n^3) boundary / extreme-vertex oracle.
"""
import itertools
from fractions import Fraction

import numpy as np

from mc import core, lib, curves, monitor
from mc.core import Failure
import kneeliverse.convex_hull as ch

ID = 'C18'
TITLE = 'Convex-hull routines return the true hull'
RULE = ('cases = curves (lower/upper chain) and point sets in several row orders (graham_scan), enumerated completely; non-trivial = the hull '
        'omits at least one input point (a real selection was made)')
ASSUMPTIONS = ['orientation is evaluated exactly (integer / dyadic coordinates)',
               '"lowest-leftmost" start accepted as either leftmost-then-lowest or lowest-then-leftmost']
BOUNDS = {'quick': {'re-embedded': 'chains A12 n=5 and lattice sets (size<=5) at scales 2^-24, 2^-40, (2^20,2^30)', 'chains': 'A n<=5 complete, A12 n=6', 'graham_scan': 'all subsets of the 4x4 lattice of size 3..5, 3 row orders'},
          'thorough': {'chains': 'A n<=6 complete, A1 n=7,8,9, A12 n=7', 'graham_scan': 'all subsets of 4x4 lattice size 3..8 and of the 5x5 lattice size 3..5, 3 row orders'}}
TECHNIQUE = 'exhaustive enumeration of small curves / lattice subsets on the real hull routines against brute-force exact-orientation hulls'
LEVEL_TEXT = ('Model checking by complete enumeration: all curves of the alphabet up to the bound and all subsets of a small lattice (general position and every '
              'degenerate configuration) in several input orders; chains must equal the brute-force chain, graham_scan must contain all extreme vertices, only '
              'boundary points, and exactly the clockwise vertex cycle in general position; loops are run under the step monitor.')
LEVEL_NOTE = 'Bounded by set size and lattice; exact coordinates only.'


def units(tier, seed):
    u = []
    plan = [('A', 2, 1), ('A', 3, 1), ('A', 4, 4), ('A', 5, 32), ('A12', 6, 16)] if tier == 'quick' else \
        [('A', 2, 1), ('A', 3, 1), ('A', 4, 4), ('A', 5, 16), ('A', 6, 256), ('A1', 7, 8), ('A1', 8, 32), ('A1', 9, 128), ('A12', 7, 512)]
    b = curves.bonus(seed)
    plan.append((b.name, 4, 4))
    for sx, sy in ((2.0 ** -24, 2.0 ** -24), (1.0, 2.0 ** -40), (2.0 ** 20, 2.0 ** 30)):
        plan.append((curves.scaled(curves.A12, sx, sy).name, 5, 16))
    for prof, n, K in plan:
        for k in range(K):
            u.append(('chain', prof, n, k, K))
    shift = [0, 5, -7, 1024, 3, -1][seed % 6]
    sizes = (3, 4, 5) if tier == 'quick' else (3, 4, 5, 6, 7, 8)
    for sz in sizes:
        K = {3: 1, 4: 2, 5: 8, 6: 16, 7: 32, 8: 64}[sz]
        for k in range(K):
            u.append(('set', 4, sz, k, K, shift, 1.0))
    for sc in (2.0 ** -24, 2.0 ** -40):
        for sz in (3, 4, 5):
            K = {3: 1, 4: 2, 5: 8}[sz]
            for k in range(K):
                u.append(('set', 4, sz, k, K, 0, sc))
    if tier == 'thorough':
        for sz, K in ((3, 2), (4, 16), (5, 128)):
            for k in range(K):
                u.append(('set', 5, sz, k, K, shift, 1.0))
    return u


def WARM():
    monitor.install()


def orient(a, b, c):
    a, b, c = [(Fraction(p[0]), Fraction(p[1])) for p in (a, b, c)]
    return (b[0] - a[0]) * (c[1] - a[1]) - (c[0] - a[0]) * (b[1] - a[1])


def ref_chain(P, lower=True):
    n = len(P)
    out = [0]
    for i in range(1, n - 1):
        ok = True
        for a in range(0, i):
            for b in range(i + 1, n):
                o = orient(P[a], P[b], P[i])
                if (o >= 0) if lower else (o <= 0):
                    ok = False
                    break
            if not ok:
                break
        if ok:
            out.append(i)
    out.append(n - 1)
    return out


def check_chain(xs, ys):
    n = len(xs)
    pts = curves.points(xs, ys)
    P = [(Fraction(x), Fraction(y)) for x, y in zip(xs, ys)]
    case = {'oracle': 'chain', 'x': list(xs), 'y': list(ys)}
    key = lib.pts_key(xs, ys)
    out = []
    info = []
    for name, fn, lower in (('graham_scan_lower', ch.graham_scan_lower, True), ('graham_scan_upper', ch.graham_scan_upper, False)):
        st, v, _ = lib.guarded(4 * n + 8, fn, pts)
        f = 'convex_hull.' + name
        if st == 'hang':
            out.append(Failure(f, 'non-termination', key, case, str(v), (n, 0)))
            continue
        if st == 'raise':
            out.append(Failure(f, lib.exc_kind(v), key, case, repr(v), (n, 0)))
            continue
        got = np.asarray(v).tolist()
        exp = ref_chain(P, lower)
        info.append(exp)
        if got != exp:
            out.append(Failure(f, 'not-the-hull-chain', key, case, 'expected %s observed %s' % (exp, got), (n, 0)))
    return info, out


def hull_sets(P):
    """(boundary indices, extreme-vertex indices) by brute force with exact orientation."""
    n = len(P)
    all_col = all(orient(P[0], P[1], p) == 0 for p in P)
    boundary = set()
    for i in range(n):
        if all_col:
            boundary.add(i)
            continue
        for j in range(n):
            if j == i:
                continue
            s = [orient(P[i], P[j], P[r]) for r in range(n)]
            if all(v >= 0 for v in s) or all(v <= 0 for v in s):
                boundary.add(i)
                break
    extreme = set()
    for i in boundary:
        between = False
        for a in range(n):
            for b in range(a + 1, n):
                if a == i or b == i:
                    continue
                if orient(P[a], P[b], P[i]) == 0:
                    # strictly between a and b?
                    if (min(P[a][0], P[b][0]) <= P[i][0] <= max(P[a][0], P[b][0]) and
                            min(P[a][1], P[b][1]) <= P[i][1] <= max(P[a][1], P[b][1])):
                        between = True
                        break
            if between:
                break
        if not between:
            extreme.add(i)
    general = not any(orient(P[a], P[b], P[c]) == 0 for a, b, c in itertools.combinations(range(n), 3))
    return boundary, extreme, general


def check_set(P):
    n = len(P)
    pts = np.array(P, dtype=float)
    case = {'oracle': 'set', 'points': [list(p) for p in P]}
    key = 'points=%s' % [list(p) for p in P]
    f = 'convex_hull.graham_scan'
    st, v, _ = lib.guarded(4 * n + 8, ch.graham_scan, pts)
    if st == 'hang':
        return None, [Failure(f, 'non-termination', key, case, str(v), (n, 0))]
    if st == 'raise':
        return None, [Failure(f, lib.exc_kind(v), key, case, repr(v), (n, 0))]
    got = [int(a) for a in np.asarray(v).tolist()]
    boundary, extreme, general = hull_sets(P)
    if len(set(got)) != len(got) or any(not (0 <= g < n) for g in got):
        return got, [Failure(f, 'duplicate-or-invalid-index', key, case, 'observed %s' % got, (n, 0))]
    if not extreme <= set(got):
        return got, [Failure(f, 'misses-an-extreme-vertex', key, case, 'observed %s, extreme vertices %s' % (got, sorted(extreme)), (n, 0))]
    if not set(got) <= boundary:
        return got, [Failure(f, 'contains-an-interior-point', key, case, 'observed %s, boundary points %s' % (got, sorted(boundary)), (n, 0))]
    if general:
        if set(got) != extreme:
            return got, [Failure(f, 'not-the-vertex-set', key, case, 'observed %s expected set %s' % (got, sorted(extreme)), (n, 0))]
        starts = {min(range(n), key=lambda i: (P[i][0], P[i][1])), min(range(n), key=lambda i: (P[i][1], P[i][0]))}
        k = len(got)
        cw = all(orient(P[got[i]], P[got[(i + 1) % k]], P[got[(i + 2) % k]]) < 0 for i in range(k))
        if got[0] not in starts or not cw:
            return got, [Failure(f, 'not-clockwise-from-lowest-leftmost', key, case, 'observed %s (points %s)' % (got, [list(P[g]) for g in got]), (n, 0))]
    return got, []


def orders(idx):
    idx = list(idx)
    return [idx, idx[::-1], idx[len(idx) // 2:] + idx[:len(idx) // 2]]


def run_unit(unit, res):
    if unit[0] == 'chain':
        _, prof, n, k, K = unit
        P = curves.get(prof)
        first = True
        for i, xs, ys in P.shard(n, k, K):
            info, fs = check_chain(xs, ys)
            res.count('evaluations', 2)
            res.count('states', n)
            res.count('transitions', max(n - 2, 1) * 2)
            for f in fs:
                res.fail(f)
            if not fs:
                res.count('traces', 2)
            for e in info:
                if len(e) < n:
                    res.count('nontrivial')
            if first and n >= 4:
                first = False
                res.sample({'curve': {'x': xs, 'y': ys}, 'lower_chain': info[0] if info else None})
        res.notes['chain_n_max_' + prof.split('+')[0]] = n
    else:
        _, side, sz, k, K, shift, sc = unit
        lat = [((x + shift) * sc, (y - shift) * sc) for x in range(side) for y in range(side)]
        first = True
        for ci, comb in enumerate(itertools.combinations(range(len(lat)), sz)):
            if ci % K != k:
                continue
            for od in orders(comb):
                P = [lat[i] for i in od]
                got, fs = check_set(P)
                res.count('evaluations')
                res.count('states', sz)
                res.count('transitions', sz)
                for f in fs:
                    res.fail(f)
                if got is not None and not fs:
                    res.count('traces')
                    if len(got) < sz:
                        res.count('nontrivial')
                if first and sz >= 5 and got is not None:
                    first = False
                    res.sample({'points': [list(p) for p in P], 'graham_scan': got})
        res.notes['set_size_max_%dx%d' % (side, side)] = sz


def replay(case):
    if case['oracle'] == 'chain':
        _, fs = check_chain(case['x'], case['y'])
        return fs
    _, fs = check_set([tuple(p) for p in case['points']])
    return fs
