"""C19 - knee-evaluation scores obey their accounting identities.

All small curves x every knee set K x every ordered expected set E (lattice of curve x values plus one
off-grid x, y in {0,1}) with |K|+|E| <= n x tolerances x 4 strategies.  Reference: greedy matching with all
nearest-neighbour tie choices explored (relational oracle), exact rational distances for the tolerance test.
"""
import math
import itertools
from fractions import Fraction

import numpy as np

from mc import core, lib, curves
from mc.core import Failure
import kneeliverse.evaluation as ev

ID = 'C19'
TITLE = 'Knee-evaluation scores obey their accounting identities'
RULE = ('cases = (curve, knee set K, ordered expected set E, tolerance / strategy), full product below the bound; non-trivial = at least one expected '
        'point is matched and at least one is not, or |K| != |E| (the strategies select different sides)')
ASSUMPTIONS = ['nearest-neighbour ties may be broken either way (every choice explored by the reference)',
               'tolerance comparison uses exact rational distances; the alphabet makes them exactly representable']
BOUNDS = {'quick': {'curves': 'n=3: y in {0,1,2}, gaps {1,2}; n=4: y{0,1,2} unit gaps and y{0,1} gaps{1,2}; n=5: y{0,1} unit gaps (|E|<=2), y{0,1,2} unit gaps (|E|=1)', 'E': 'ordered, size<=2', 't': '{0,1/4,1/2}', 'score functions': 'every confusion matrix with entries in {0,1,2,3,1000,2^15,2^16+1,2^20,2^24} a curve can produce (tn>=tp, K and E non-empty)', 'trace-sized curves': 'n=2^20, 16384 knees: perfect detection and detection shifted by one sample, whole cm->scores pipeline', 'large inputs': 'n=16,20 with (|K|,|E|) in {(8,8),(10,8),(4,16),(16,4)}: perfect detection perturbed in <=2 positions (bounded deviation), t in {0.02,0.1}'},
          'thorough': {'curves': 'n=3,4: y{0,1,2} gaps{1,2} (|E|<=3); n=5: y{0,1,2} unit gaps (|E|<=3), y{0,1} gaps{1,2} (|E|<=2); n=6: y{0,1} unit gaps (|E|<=2)', 'E': 'ordered', 't': '{0,1/4,1/2,1}', 'score functions': 'as quick', 'trace-sized curves': 'n=2^18..2^22'}}
TECHNIQUE = 'bounded-exhaustive enumeration of curves x knee sets x ordered expected sets on the real scoring functions against a reference matcher exploring all tie choices'
LEVEL_TEXT = ('Model checking: every knee set and every small ordered expected set on every small curve; confusion-matrix identities, greedy one-to-one TP, '
              'nearest-neighbour error means per strategy, ranges of accuracy/F1/MCC and the perfect-detection clauses checked on each.')
LEVEL_NOTE = 'Bounded by n, |E| and the integer alphabet.'

STRATS = [ev.Strategy.knees, ev.Strategy.expected, ev.Strategy.best, ev.Strategy.worst]
PROF3 = curves.Profile('E012', (0,), (1, 2), (0, 1, 2))
PROF3U = curves.Profile('E012U', (0,), (1,), (0, 1, 2))
PROF2 = curves.Profile('E01', (0,), (1, 2), (0, 1))
PROF2U = curves.Profile('E01U', (0,), (1,), (0, 1))
for _p in (PROF3, PROF3U, PROF2, PROF2U):
    curves.register(_p)


def units(tier, seed):
    xs0 = [0, 3, 10, 1, 7, 100][seed % 6]
    if tier == 'quick':
        plan = [('E012', 3, 1, 2), ('E012U', 4, 16, 2), ('E01', 4, 16, 2), ('E01U', 5, 32, 2), ('E012U', 5, 48, 1)]
    else:
        plan = [('E012', 3, 1, 3), ('E012', 4, 128, 3), ('E01', 5, 128, 2), ('E012U', 5, 243, 3), ('E01U', 6, 64, 2)]
    u = [(prof, n, k, K, emax, xs0, tier) for prof, n, K, emax in plan for k in range(K)]
    # larger inputs, explored by bounded deviation from perfect detection (size-dependent code paths)
    big = [(16, 8, 8), (20, 10, 8), (20, 4, 16), (20, 16, 4)] if tier == 'quick' else [(16, 8, 8), (20, 10, 8), (20, 8, 10), (20, 4, 16), (20, 16, 4), (24, 12, 12), (32, 16, 16)]
    for n, nk, ne in big:
        for k in range(16):
            u.append(('large', n, nk, ne, k, 16, tier))
    # the score functions over a grid of confusion matrices whose entries range up to trace-sized counts
    for i in range(len(ENT)):
        u.append(('cmgrid', i))
    # the whole pipeline (cm -> scores) on trace-sized curves: perfect detection and detection shifted by one sample
    for n, step in ([(1 << 20, 64)] if tier == 'quick' else [(1 << 20, 64), (1 << 21, 64), (1 << 22, 256), (1 << 18, 8)]):
        u.append(('bigcurve', n, step))
    return u


ENT = (0, 1, 2, 3, 1000, 2 ** 15, 2 ** 16 + 1, 2 ** 20, 2 ** 24)


def check_scores(tp, fp, fn, tn, m=None):
    """accuracy / f1score / mcc on one confusion matrix (the int64 array cm returns) against exact integer arithmetic."""
    m = np.array([[tp, fp], [fn, tn]]) if m is None else m
    case = {'oracle': 'cmgrid', 'cm': [[tp, fp], [fn, tn]]}
    key = 'cm=[[%d,%d],[%d,%d]]' % (tp, fp, fn, tn)
    n = tp + fp + fn + tn
    out = []
    try:
        acc, f1 = float(ev.accuracy(m)), float(ev.f1score(m))
        ea, ef = float(Fraction(tp + tn, n)), float(Fraction(2 * tp, 2 * tp + fp + fn))
        if not (0.0 <= acc <= 1.0) or not (0.0 <= f1 <= 1.0):
            out.append(Failure('evaluation.accuracy/f1score', 'out-of-range', key, case, 'accuracy=%r f1=%r' % (acc, f1), (n, 0)))
        elif abs(acc - ea) > 1e-12 or abs(f1 - ef) > 1e-12:
            out.append(Failure('evaluation.accuracy/f1score', 'wrong-value', key, case, 'accuracy=%r (%r) f1=%r (%r)' % (acc, ea, f1, ef), (n, 0)))
        elif fp == 0 and fn == 0 and (acc != 1.0 or f1 != 1.0):
            out.append(Failure('evaluation.accuracy/f1score', 'perfect-detection-not-1', key, case, 'accuracy=%r f1=%r' % (acc, f1), (n, 0)))
    except Exception as e:  # noqa: BLE001
        out.append(Failure('evaluation.accuracy/f1score', lib.exc_kind(e), key, case, repr(e), (n, 0)))
    den = (tp + fp) * (tp + fn) * (tn + fp) * (tn + fn)
    if den != 0:
        try:
            mc = float(ev.mcc(m))
            e = (tp * tn - fp * fn) / math.sqrt(den)
            if not (-1.0 - 1e-12 <= mc <= 1.0 + 1e-12):
                out.append(Failure('evaluation.mcc', 'out-of-range', key, case, 'mcc=%r (exact %r)' % (mc, e), (n, 0)))
            elif abs(mc - e) > 1e-12:
                out.append(Failure('evaluation.mcc', 'wrong-value', key, case, 'mcc=%r expected %r' % (mc, e), (n, 0)))
        except Exception as e:  # noqa: BLE001
            out.append(Failure('evaluation.mcc', lib.exc_kind(e), key, case, repr(e), (n, 0)))
    return out


def run_cmgrid(unit, res):
    tp = ENT[unit[1]]
    for fp in ENT:
        for fn in ENT:
            for tn in ENT:
                # matrices a curve can produce: K and E non-empty, |K| + |E| <= n  (<=> tn >= tp)
                if tp + fp == 0 or tp + fn == 0 or tn < tp:
                    continue
                fs = check_scores(tp, fp, fn, tn)
                res.count('evaluations', 3)
                res.count('states')
                res.count('transitions', 3)
                res.count('cm_grid_matrices')
                for f in fs:
                    res.fail(f)
                if not fs:
                    res.count('traces', 3)
                if fp and fn and tp:
                    res.count('nontrivial')
    res.notes['cm_grid_entry_max'] = max(ENT)


def check_bigcurve(n, step, shift):
    x = np.arange(n, dtype=float)
    pts = np.stack([x, 1.0 / (1.0 + x)], axis=1)
    K = np.arange(5, n - 1, step)
    E = pts[K + shift]
    case = {'oracle': 'bigcurve', 'n': n, 'step': step, 'shift': shift}
    key = 'x=0..%d y=1/(1+x) knees=5+%d*j expected=points[knees+%d] t=0' % (n - 1, step, shift)
    try:
        m = np.asarray(ev.cm(pts, K, E, 0.0))
        tp, fp, fn, tn = [int(v) for v in m.ravel()]
    except Exception as e:  # noqa: BLE001
        return [Failure('evaluation.cm', lib.exc_kind(e), key, case, repr(e), (n, 0))]
    exp = [len(K), 0, 0, n - len(K)] if shift == 0 else [0, len(K), len(K), n - 2 * len(K)]
    if [tp, fp, fn, tn] != exp:
        return [Failure('evaluation.cm', 'accounting-identity-broken', key, case, 'cm=%s expected %s' % (m.tolist(), exp), (n, 0))]
    out = check_scores(tp, fp, fn, tn, m)
    for f in out:
        f.case, f.key = case, key
    return out


def run_bigcurve(unit, res):
    _, n, step = unit
    for shift in (0, 1):
        fs = check_bigcurve(n, step, shift)
        res.count('evaluations', 4)
        res.count('states')
        res.count('transitions', (n - 6) // step + 4)
        res.count('trace_sized_curves')
        for f in fs:
            res.fail(f)
        if not fs:
            res.count('traces', 4)
        if shift:
            res.count('nontrivial')
    res.notes['big_curve_n_max'] = n


def tp_set(kx, E, dx, t):
    """All TP counts reachable by the greedy matching under every nearest-knee tie choice.
    Exact: coordinates are integers or halves, t is dyadic, so |k - px| and t*dx are exact doubles."""
    lim = float(t) * float(dx)
    res = set()
    kxf = [float(k) for k in kx]

    def rec(i, used, tp):
        if i == len(E):
            res.add(tp)
            return
        px = float(E[i][0])
        d = [abs(k - px) for k in kxf]
        m = min(d)
        for j, v in enumerate(d):
            if v == m:
                if v <= lim and j not in used:
                    rec(i + 1, used | {j}, tp + 1)
                else:
                    rec(i + 1, used, tp)
    rec(0, frozenset(), 0)
    return res


def nn_choices(a, b):
    """For every p in a: the list of nearest points of b (ties); squared distances are exact doubles."""
    out = []
    for p in a:
        d = [(p[0] - q[0]) ** 2 + (p[1] - q[1]) ** 2 for q in b]
        m = min(d)
        out.append([q for q, v in zip(b, d) if v == m])
    return out


def sides(strategy, kp, E):
    """The admissible iterated/target sides: best = the smaller set is matched against the larger, worst = the larger
    against the smaller; with equal sizes the statement does not say which, so both are admissible."""
    if strategy is ev.Strategy.knees:
        return [(kp, E)]
    if strategy is ev.Strategy.expected:
        return [(E, kp)]
    if len(E) == len(kp):
        return [(E, kp), (kp, E)]
    small_first = (E, kp) if len(E) < len(kp) else (kp, E)
    if strategy is ev.Strategy.best:
        return [small_first]
    return [(small_first[1], small_first[0])]


def achievable(a, choices, term):
    """Set of achievable sums of term(p, q) over tie choices."""
    sums = {0.0}
    for p, cs in zip(a, choices):
        vals = set(term(p, q) for q in cs)
        sums = set(s + v for s in sums for v in vals)
    return sums


def near(got, cands, rel=1e-9):
    return any(abs(got - c) <= rel * max(abs(c), abs(got)) + 1e-15 for c in cands)


def check_case(xs, ys, K, E, ts):
    n = len(xs)
    pts = curves.points(xs, ys)
    Ka = np.array(K, dtype=int)
    Ea = np.array(E, dtype=float)
    base = {'oracle': 'scores', 'x': list(xs), 'y': list(ys), 'knees': list(K), 'expected': [list(e) for e in E], 'ts': list(ts)}
    key0 = '%s knees=%s expected=%s' % (lib.pts_key(xs, ys), list(K), [list(e) for e in E])
    out = []
    info = {'matched': 0, 'unmatched': 0}
    dx = Fraction(max(xs)) - Fraction(min(xs))
    kx = [xs[k] for k in K]
    kp = [(xs[k], ys[k]) for k in K]
    perfect = sorted(kp) == sorted(tuple(e) for e in E) and len(set(kp)) == len(kp)
    for t in ts:
        key = key0 + ' t=%r' % t
        try:
            m = np.asarray(ev.cm(pts, Ka, Ea, t))
            tp, fp, fn, tn = [int(v) for v in (m[0][0], m[0][1], m[1][0], m[1][1])]
        except Exception as e:  # noqa: BLE001
            out.append(Failure('evaluation.cm', lib.exc_kind(e), key, base, repr(e), (n, len(K) + len(E))))
            continue
        tps = tp_set(kx, E, dx, t)
        if tp + fn != len(E) or tp + fp != len(K) or tp + fp + fn + tn != n or tn < 0:
            out.append(Failure('evaluation.cm', 'accounting-identity-broken', key, base, 'cm=[[%d,%d],[%d,%d]] |E|=%d |K|=%d n=%d' % (tp, fp, fn, tn, len(E), len(K), n), (n, len(K) + len(E))))
            continue
        if tp not in tps:
            out.append(Failure('evaluation.cm', 'tp-not-the-greedy-one-to-one-count', key, base, 'TP=%d, greedy count(s) %s' % (tp, sorted(tps)), (n, len(K) + len(E))))
            continue
        info['matched'] = max(info['matched'], tp)
        info['unmatched'] = max(info['unmatched'], fn)
        try:
            acc, f1 = float(ev.accuracy(m)), float(ev.f1score(m))
            if not (0.0 <= acc <= 1.0) or not (0.0 <= f1 <= 1.0):
                out.append(Failure('evaluation.accuracy/f1score', 'out-of-range', key, base, 'accuracy=%r f1=%r' % (acc, f1), (n, 0)))
            den = (tp + fp) * (tp + fn) * (tn + fp) * (tn + fn)
            if den != 0:
                mc = float(ev.mcc(m))
                e = (tp * tn - fp * fn) / math.sqrt(den)
                if not (-1.0 - 1e-12 <= mc <= 1.0 + 1e-12) or abs(mc - e) > 1e-12:
                    out.append(Failure('evaluation.mcc', 'wrong-value', key, base, 'mcc=%r expected %r' % (mc, e), (n, 0)))
            ea = (tp + tn) / n
            ef = 2.0 * tp / (2 * tp + fp + fn)
            if abs(acc - ea) > 1e-12 or abs(f1 - ef) > 1e-12:
                out.append(Failure('evaluation.accuracy/f1score', 'wrong-value', key, base, 'accuracy=%r (%r) f1=%r (%r)' % (acc, ea, f1, ef), (n, 0)))
            if perfect and (acc != 1.0 or f1 != 1.0 or (den != 0 and abs(float(ev.mcc(m)) - 1.0) > 1e-12)):
                out.append(Failure('evaluation.accuracy/f1score', 'perfect-detection-not-1', key, base, 'cm=%s' % m.tolist(), (n, 0)))
        except Exception as e:  # noqa: BLE001
            out.append(Failure('evaluation.accuracy/f1score', lib.exc_kind(e), key, base, repr(e), (n, 0)))
    Ef = [(float(e[0]), float(e[1])) for e in E]
    kpf = [(float(p[0]), float(p[1])) for p in kp]
    for s in STRATS:
        key = key0 + ' strategy=%s' % s.value
        try:
            mae, mse, rmse, rmspe = [float(f(pts, Ka, Ea, s)) for f in (ev.mae, ev.mse, ev.rmse, ev.rmspe)]
        except Exception as e:  # noqa: BLE001
            out.append(Failure('evaluation.mae/mse/rmse/rmspe', lib.exc_kind(e), key, dict(base, strategy=s.value), repr(e), (n, 0)))
            continue
        c = dict(base, strategy=s.value)
        e_mae, e_mse, e_pe = [], [], []
        for a, b in sides(s, kpf, Ef):
            ch = nn_choices(a, b)
            na = len(a)
            e_mae += [v / (2.0 * na) for v in achievable(a, ch, lambda p, q: abs(p[0] - q[0]) + abs(p[1] - q[1]))]
            e_mse += [v / (2.0 * na) for v in achievable(a, ch, lambda p, q: (p[0] - q[0]) ** 2 + (p[1] - q[1]) ** 2)]
            e_pe += [math.sqrt(v / (2.0 * na)) for v in achievable(a, ch, lambda p, q: ((p[0] - q[0]) / (p[0] + 1e-16)) ** 2 + ((p[1] - q[1]) / (p[1] + 1e-16)) ** 2)]
        if not near(mae, e_mae):
            out.append(Failure('evaluation.mae', 'not-the-nearest-neighbour-mean', key, c, 'mae=%r expected one of %s' % (mae, e_mae[:4]), (n, 0)))
        if not near(mse, e_mse):
            out.append(Failure('evaluation.mse', 'not-the-nearest-neighbour-mean', key, c, 'mse=%r expected one of %s' % (mse, e_mse[:4]), (n, 0)))
        if not near(rmse, [math.sqrt(v) for v in e_mse]) or abs(rmse - math.sqrt(mse)) > 1e-12 * max(1.0, rmse):
            out.append(Failure('evaluation.rmse', 'not-sqrt-of-mse', key, c, 'rmse=%r mse=%r' % (rmse, mse), (n, 0)))
        if not near(rmspe, e_pe):
            out.append(Failure('evaluation.rmspe', 'not-the-nearest-neighbour-mean', key, c, 'rmspe=%r expected one of %s' % (rmspe, e_pe[:4]), (n, 0)))
        if min(mae, mse, rmse, rmspe) < 0:
            out.append(Failure('evaluation.mae/mse/rmse/rmspe', 'negative', key, c, repr((mae, mse, rmse, rmspe)), (n, 0)))
        if perfect and (mae, mse, rmse, rmspe) != (0.0, 0.0, 0.0, 0.0):
            out.append(Failure('evaluation.mae/mse/rmse/rmspe', 'non-zero-on-perfect-detection', key, c, repr((mae, mse, rmse, rmspe)), (n, 0)))
    return info, out


def expected_lattice(xs):
    ex = list(xs) + [xs[0] + 0.5]
    return [(x, y) for x in ex for y in (0, 1)]


def large_cases(n, nk, ne):
    """(xs, ys, K, E) with E = perfect detection perturbed in at most two positions."""
    for xs in ([float(i) for i in range(n)], [float(i + (i // 2)) for i in range(n)]):
        ys = [float((i * 7) % 5) for i in range(n)]
        step = max(1, n // nk)
        for start in (0, 1):
            K = [start + step * j for j in range(nk) if start + step * j < n]
            if len(K) < nk:
                continue
            kp = [(xs[k], ys[k]) for k in K]
            others = [(xs[i], ys[i]) for i in range(n) if i not in K]
            base = (kp + others)[:ne] if ne > nk else kp[:ne]
            lat1 = [(x + d, 0.0) for x in xs for d in (0.0, 0.5)]
            lat2 = [(x + 0.5, 0.0) for x in xs]
            yield xs, ys, K, list(base)
            for j in range(ne):
                for p in lat1:
                    E = list(base)
                    E[j] = p
                    yield xs, ys, K, E
            if ne <= 10:
                for j1 in range(ne):
                    for j2 in range(j1 + 1, ne):
                        for p1 in lat2:
                            for p2 in lat2[::2]:
                                E = list(base)
                                E[j1], E[j2] = p1, p2
                                yield xs, ys, K, E


def run_large(unit, res):
    _, n, nk, ne, k, K_, tier = unit
    ts = (0.02, 0.1)
    for ci, (xs, ys, K, E) in enumerate(large_cases(n, nk, ne)):
        if ci % K_ != k:
            continue
        if len(set(E)) != len(E):
            continue
        info, fs = check_case(xs, ys, K, tuple(E), ts)
        ncalls = len(ts) * 4 + 16
        res.count('evaluations', ncalls)
        res.count('states')
        res.count('transitions', ne * len(ts) + 4 * max(nk, ne))
        res.count('large_cases')
        for f in fs:
            res.fail(f)
        if not fs:
            res.count('traces', ncalls)
        if info['matched'] and info['unmatched']:
            res.count('nontrivial')
    res.notes['large_n_max'] = n


def run_unit(unit, res):
    if unit[0] == 'large':
        return run_large(unit, res)
    if unit[0] == 'cmgrid':
        return run_cmgrid(unit, res)
    if unit[0] == 'bigcurve':
        return run_bigcurve(unit, res)
    prof, n, k, K, emax, xs0, tier = unit
    P = curves.get(prof)
    ts = (0.0, 0.25, 0.5) if tier == 'quick' else (0.0, 0.25, 0.5, 1.0)
    first = True
    idx = list(range(n))
    ksets = [list(c) for r in range(1, n + 1) for c in itertools.combinations(idx, r)]
    for i, xs, ys in P.shard(n, k, K):
        xs = [x + xs0 for x in xs] if (i % 2 == 1) else xs
        lat = expected_lattice(xs)
        for esz in range(1, emax + 1):
            for E in itertools.permutations(lat, esz):
                for Kn in ksets:
                    if len(Kn) + esz > n:
                        continue
                    info, fs = check_case(xs, ys, Kn, E, ts)
                    ncalls = len(ts) * 4 + 16
                    res.count('evaluations', ncalls)
                    res.count('states')
                    res.count('transitions', esz * len(ts) + 4 * max(len(Kn), esz))
                    for f in fs:
                        res.fail(f)
                    if not fs:
                        res.count('traces', ncalls)
                    if (info['matched'] and info['unmatched']) or len(Kn) != esz:
                        res.count('nontrivial')
                    if first and esz == 2 and len(Kn) == 2:
                        first = False
                        res.sample({'x': xs, 'y': ys, 'knees': Kn, 'expected': [list(e) for e in E], 'tolerances': ts})
    res.notes['n_max_' + prof] = n


def replay(case):
    if case.get('oracle') == 'cmgrid':
        (tp, fp), (fn, tn) = case['cm']
        return check_scores(tp, fp, fn, tn)
    if case.get('oracle') == 'bigcurve':
        return check_bigcurve(case['n'], case['step'], case['shift'])
    _, fs = check_case(case['x'], case['y'], case['knees'], [tuple(e) for e in case['expected']], case['ts'])
    return fs
