"""C17 - geometric and ranking primitives equal their geometric definitions.

Exhaustive lattices: every (a, b) segment x every point, every pair of axis-parallel rectangles, every
ordered triple of distinct points of a small integer lattice, re-embedded exactly (powers of two) at large
offsets and tiny scales; every sub-range of small curves; every short value vector for the ranking helpers.
Oracle: exact rational geometry (+ one sqrt), relative 1e-12.
"""
import math
import itertools
from fractions import Fraction

import numpy as np

from mc import core, lib, curves
from mc.core import Failure
import kneeliverse.linear_fit as lf
import kneeliverse.knee_ranking as kr
import kneeliverse.menger as menger
import kneeliverse.postprocessing as pp

ID = 'C17'
TITLE = 'Geometric and ranking primitives equal their geometric definitions'
RULE = ('cases = primitive calls on all lattice configurations (segments x points, rectangle pairs, ordered triples, sub-ranges, value vectors); '
        'non-trivial = non-degenerate configuration with a non-zero expected value (proper segment and off-segment point, overlapping rectangles, non-collinear triple, vector with distinct values)')
ASSUMPTIONS = ['relative tolerance 1e-12 plus 1e-12 x configuration scale absolute', 'coordinates are exactly representable (integer lattice, power-of-two embeddings)']
BOUNDS = {'quick': {'lattice': '{-2..3}^2', 'embeddings (scale, shift)': 5, 'curves for sub-ranges': 'A n<=4, A1 n=5,6', 'value vectors': 'length<=5 over {0,1,2,3}', 'integer-dtype embeddings': 'int32 x2^16, int64 x2^32, int32 +2^15, int32 x2^14-2^29 (segments, triples, rectangles; sub-ranges for the first two)'},
          'thorough': {'lattice': '{-3..4}^2', 'embeddings': 5, 'curves for sub-ranges': 'A n<=5, A1 n=6,7,8, A12 n=6', 'value vectors': 'length<=6 over {0,1,2,3}', 'integer-dtype embeddings': 'same four, finer sharding'}}
TECHNIQUE = 'exhaustive lattice enumeration of the real primitives against exact rational geometry'
LEVEL_TEXT = ('Model checking by complete enumeration of small lattices (degenerate cases included) under exact re-embeddings at offsets up to 2^20 and scales '
              'down to 2^-30: every primitive call compared with its exact-arithmetic definition, the lattices also presented as int32 / int64 arrays whose cross products exceed the dtype, plus symmetry / range / degenerate clauses.')
LEVEL_NOTE = 'Lattice and power-of-two embeddings only; arbitrary reals are outside the bound.'

_DT = [float]   # dtype in which the arguments are presented to the library (float64, or a narrow / wide integer dtype for the integer embeddings)
IEMB = [(2 ** 16, 0, 'int32'), (2 ** 32, 0, 'int64'), (1, 2 ** 15, 'int32'), (2 ** 14, -(2 ** 29), 'int32')]


def _case(c):
    if _DT[0] is not float:
        c['dtype'] = np.dtype(_DT[0]).name
    return c


def _setdt(name):
    _DT[0] = float if not name else getattr(np, name)


EMB = [(1.0, 0.0), (1.0, 2.0 ** 20), (2.0 ** -30, 0.0), (2.0 ** 10, -(2.0 ** 20)), (1.0, 2.0 ** 17 + 3)]


def units(tier, seed):
    lat = (-2, -1, 0, 1, 2, 3) if tier == 'quick' else (-3, -2, -1, 0, 1, 2, 3, 4)
    extra = [(2.0 ** 3, 2.0 ** 12), (2.0 ** -10, 1.0), (1.0, -(2.0 ** 15)), (2.0 ** 5, 0.0), (1.0, 2.0 ** 23), (2.0 ** -20, 2.0 ** -5)][seed % 6]
    u = []
    for ei, emb in enumerate(EMB + [extra]):
        K = 8 if tier == 'quick' else 32
        for k in range(K):
            u.append(('seg', lat, emb, k, K))
            u.append(('tri', lat, emb, k, K))
            u.append(('rect', lat, emb, k, K))
    for emb in IEMB:
        K = 4 if tier == 'quick' else 16
        for k in range(K):
            u.append(('seg', lat, emb, k, K))
            u.append(('tri', lat, emb, k, K))
            u.append(('rect', lat, emb, k, K))
    plan = [('A', 3, 1), ('A', 4, 8), ('A1', 5, 2), ('A1', 6, 8)] if tier == 'quick' else [('A', 4, 8), ('A', 5, 64), ('A1', 6, 8), ('A1', 7, 16), ('A1', 8, 64), ('A12', 6, 128)]
    for prof, n, K in plan:
        for k in range(K):
            u.append(('sub', prof, n, k, K))
    for prof, n, K in plan[:2]:
        for k in range(K):
            for emb in IEMB[:2]:
                u.append(('sub', prof, n, k, K, emb))
    u.append(('vec', 5 if tier == 'quick' else 6))
    return u


def emb_pt(p, emb):
    s, sh = emb[0], emb[1]
    return (p[0] * s + sh, p[1] * s + sh)


def F2(p):
    return (Fraction(p[0]), Fraction(p[1]))


def close(got, exp, scale):
    if got != got:
        return False
    return abs(got - exp) <= 1e-12 * max(abs(exp), abs(got)) + 1e-12 * scale


def seg_dist_exact(p, a, b):
    """Squared distance from p to the closed segment a-b (exact)."""
    p, a, b = F2(p), F2(a), F2(b)
    d = (b[0] - a[0], b[1] - a[1])
    w = (p[0] - a[0], p[1] - a[1])
    dd = d[0] * d[0] + d[1] * d[1]
    if dd == 0:
        return w[0] * w[0] + w[1] * w[1]
    t = (w[0] * d[0] + w[1] * d[1]) / dd
    t = max(Fraction(0), min(Fraction(1), t))
    c = (a[0] + t * d[0], a[1] + t * d[1])
    return (p[0] - c[0]) ** 2 + (p[1] - c[1]) ** 2


def line_dist_exact(p, a, b):
    p, a, b = F2(p), F2(a), F2(b)
    d = (b[0] - a[0], b[1] - a[1])
    w = (p[0] - a[0], p[1] - a[1])
    cr = d[0] * w[1] - d[1] * w[0]
    return cr * cr / (d[0] * d[0] + d[1] * d[1])


def fsqrt(q):
    """sqrt of a non-negative Fraction as a float, accurate to ~1 ulp."""
    if q == 0:
        return 0.0
    n, d = q.numerator, q.denominator
    # scale to keep precision for huge / tiny values
    return math.sqrt(n) / math.sqrt(d) if n < 1 << 1000 and d < 1 << 1000 else float(q) ** 0.5


def check_segment(a, b, P):
    """shortest / perpendicular distance of all points P to segment / line a-b."""
    out = []
    pts = np.array(P, dtype=_DT[0])
    A, Bp = np.array(a, dtype=_DT[0]), np.array(b, dtype=_DT[0])
    scale = max(abs(a[0] - b[0]), abs(a[1] - b[1]), max(max(abs(p[0] - a[0]), abs(p[1] - a[1])) for p in P), 1e-300)
    case = _case({'oracle': 'segment', 'a': list(a), 'b': list(b), 'points': [list(p) for p in P]})
    key = 'a=%s b=%s' % (list(a), list(b))
    try:
        got = np.asarray(lf.shortest_distance_points(pts, A, Bp), dtype=float).tolist()
        for p, g in zip(P, got):
            e = fsqrt(seg_dist_exact(p, a, b))
            if not close(g, e, scale):
                out.append(Failure('linear_fit.shortest_distance_points', 'wrong-distance', key + ' p=%s' % list(p), case, 'p=%s expected %r observed %r' % (list(p), e, g), (0, 0)))
                break
        if len(got) != len(P):
            out.append(Failure('linear_fit.shortest_distance_points', 'wrong-length', key, case, repr(got), (0, 0)))
    except Exception as e:  # noqa: BLE001
        out.append(Failure('linear_fit.shortest_distance_points', lib.exc_kind(e), key, case, repr(e), (0, 0)))
    if tuple(a) != tuple(b):
        try:
            got = np.asarray(lf.perpendicular_distance_points(pts, A, Bp), dtype=float).tolist()
            for p, g in zip(P, got):
                e = fsqrt(line_dist_exact(p, a, b))
                if not close(g, e, scale):
                    out.append(Failure('linear_fit.perpendicular_distance_points', 'wrong-distance', key + ' p=%s' % list(p), case, 'p=%s expected %r observed %r' % (list(p), e, g), (0, 0)))
                    break
        except Exception as e:  # noqa: BLE001
            out.append(Failure('linear_fit.perpendicular_distance_points', lib.exc_kind(e), key, case, repr(e), (0, 0)))
    return out


def menger_exact_sq(f, g, h):
    f, g, h = F2(f), F2(g), F2(h)
    cr = (g[0] - f[0]) * (h[1] - f[1]) - (g[1] - f[1]) * (h[0] - f[0])
    def d2(u, v):
        return (u[0] - v[0]) ** 2 + (u[1] - v[1]) ** 2
    return 4 * cr * cr / (d2(f, g) * d2(g, h) * d2(h, f))


def check_triple(f, g, h):
    case = _case({'oracle': 'triple', 'f': list(f), 'g': list(g), 'h': list(h)})
    key = 'f=%s g=%s h=%s' % (list(f), list(g), list(h))
    try:
        got = float(menger.menger_curvature(np.array(f, dtype=_DT[0]), np.array(g, dtype=_DT[0]), np.array(h, dtype=_DT[0])))
    except Exception as e:  # noqa: BLE001
        return [Failure('menger.menger_curvature', lib.exc_kind(e), key, case, repr(e), (0, 0))]
    e2 = menger_exact_sq(f, g, h)
    e = fsqrt(e2)
    if e2 == 0:
        # collinear: reciprocal circumradius is 0; rounding noise of the cross product relative to the side lengths is allowed
        ok = abs(got) <= 1e-9
    else:
        ok = close(got, e, 0.0) or abs(got - e) <= 1e-9 * e
    if not ok:
        return [Failure('menger.menger_curvature', 'not-reciprocal-circumradius', key, case, 'expected %r observed %r' % (e, got), (0, 0))]
    return []


def rect_exact(amin, amax, bmin, bmax):
    amin, amax, bmin, bmax = F2(amin), F2(amax), F2(bmin), F2(bmax)
    dx = max(Fraction(0), min(amax[0], bmax[0]) - max(amin[0], bmin[0]))
    dy = max(Fraction(0), min(amax[1], bmax[1]) - max(amin[1], bmin[1]))
    ov = dx * dy
    if ov <= 0:
        return Fraction(0)
    return ov / ((amax[0] - amin[0]) * (amax[1] - amin[1]) + (bmax[0] - bmin[0]) * (bmax[1] - bmin[1]) - ov)


def check_rect(amin, amax, bmin, bmax):
    case = _case({'oracle': 'rect', 'amin': list(amin), 'amax': list(amax), 'bmin': list(bmin), 'bmax': list(bmax)})
    key = 'A=[%s,%s] B=[%s,%s]' % (list(amin), list(amax), list(bmin), list(bmax))
    arr = [np.array(v, dtype=_DT[0]) for v in (amin, amax, bmin, bmax)]
    try:
        got = float(kr.rect_overlap(*arr))
        sym = float(kr.rect_overlap(arr[2], arr[3], arr[0], arr[1]))
    except Exception as e:  # noqa: BLE001
        return [Failure('knee_ranking.rect_overlap', lib.exc_kind(e), key, case, repr(e), (0, 0))]
    e = float(rect_exact(amin, amax, bmin, bmax))
    A, B = F2(amin), F2(amax)
    C, D = F2(bmin), F2(bmax)
    # two rectangles of zero area: the union is empty and intersection-over-union is 0/0 - the definition does not
    # extend there (the statement only fixes "1 for identical NON-degenerate rectangles"); range and symmetry still apply
    undefined = (B[0] - A[0]) * (B[1] - A[1]) == 0 and (D[0] - C[0]) * (D[1] - C[1]) == 0
    out = []
    if not undefined and not close(got, e, 0.0):
        out.append(Failure('knee_ranking.rect_overlap', 'not-intersection-over-union', key, case, 'expected %r observed %r' % (e, got), (0, 0)))
    elif not close(got, sym, 0.0):
        out.append(Failure('knee_ranking.rect_overlap', 'not-symmetric', key, case, '%r vs %r' % (got, sym), (0, 0)))
    elif not (0.0 <= got <= 1.0):
        out.append(Failure('knee_ranking.rect_overlap', 'out-of-range', key, case, repr(got), (0, 0)))
    return out


def check_subrange(xs, ys, l, r):
    pts = curves.points(xs, ys) if _DT[0] is float else np.array(list(zip(xs, ys)), dtype=_DT[0])
    n = len(xs)
    case = _case({'oracle': 'sub', 'x': list(xs), 'y': list(ys), 'l': l, 'r': r})
    key = '%s left=%d right=%d' % (lib.pts_key(xs, ys), l, r)
    out = []
    P = [(xs[i], ys[i]) for i in range(l, r + 1)]
    exp = [fsqrt(line_dist_exact(p, P[0], P[-1])) for p in P]
    scale = max(abs(xs[r] - xs[l]), max(ys) - min(ys), 1.0)
    try:
        got = np.asarray(lf.perpendicular_distance_index(pts, l, r), dtype=float).tolist()
        if len(got) != len(exp) or any(not close(g, e, scale) for g, e in zip(got, exp)):
            out.append(Failure('linear_fit.perpendicular_distance_index', 'wrong-distances', key, case, 'expected %s observed %s' % (exp, got), (n, r - l)))
    except Exception as e:  # noqa: BLE001
        out.append(Failure('linear_fit.perpendicular_distance_index', lib.exc_kind(e), key, case, repr(e), (n, r - l)))
    if l == 0 and r == n - 1:
        try:
            got = np.asarray(lf.perpendicular_distance(pts), dtype=float).tolist()
            if len(got) != len(exp) or any(not close(g, e, scale) for g, e in zip(got, exp)):
                out.append(Failure('linear_fit.perpendicular_distance', 'wrong-distances', key, case, 'expected %s observed %s' % (exp, got), (n, r - l)))
        except Exception as e:  # noqa: BLE001
            out.append(Failure('linear_fit.perpendicular_distance', lib.exc_kind(e), key, case, repr(e), (n, r - l)))
    return out


def check_vector(v):
    """rank, distance_to_similarity, distances (value vector as x coords), triangle_area."""
    out = []
    case = {'oracle': 'vec', 'v': list(v)}
    key = 'v=%s' % list(v)
    n = len(v)
    for dt in (float, int):
        try:
            r = np.asarray(kr.rank(np.array(v, dtype=dt))).tolist()
            ok = sorted(r) == list(range(n)) and all((v[i] >= v[j]) or (r[i] < r[j]) for i in range(n) for j in range(n))
            if not ok:
                out.append(Failure('knee_ranking.rank', 'not-the-ordering-permutation', key, case, 'rank=%s' % r, (n, 0)))
        except Exception as e:  # noqa: BLE001
            out.append(Failure('knee_ranking.rank', lib.exc_kind(e), key, case, repr(e), (n, 0)))
    try:
        s = np.asarray(kr.distance_to_similarity(np.array(v, dtype=float))).tolist()
        if s != [max(v) - a for a in v]:
            out.append(Failure('knee_ranking.distance_to_similarity', 'not-max-minus-value', key, case, repr(s), (n, 0)))
    except Exception as e:  # noqa: BLE001
        out.append(Failure('knee_ranking.distance_to_similarity', lib.exc_kind(e), key, case, repr(e), (n, 0)))
    if n >= 2:
        P = [(float(v[i]), float(v[(i + 1) % n])) for i in range(n)]
        try:
            d = np.asarray(kr.distances(np.array(P[0]), np.array(P))).tolist()
            e = [math.hypot(p[0] - P[0][0], p[1] - P[0][1]) for p in P]
            if len(d) != n or any(not close(a, b, 1.0) for a, b in zip(d, e)):
                out.append(Failure('knee_ranking.distances', 'not-euclidean', key, case, 'expected %s observed %s' % (e, d), (n, 0)))
        except Exception as e:  # noqa: BLE001
            out.append(Failure('knee_ranking.distances', lib.exc_kind(e), key, case, repr(e), (n, 0)))
    if n == 6:
        p = [(v[0], v[1]), (v[2], v[3]), (v[4], v[5])]
        try:
            a = float(pp.triangle_area(np.array(p, dtype=float)))
            e = 0.5 * ((p[1][0] - p[0][0]) * (p[2][1] - p[0][1]) - (p[2][0] - p[0][0]) * (p[1][1] - p[0][1]))
            if abs(abs(a) - abs(e)) > 1e-12:
                out.append(Failure('postprocessing.triangle_area', 'wrong-area', key, case, 'expected +-%r observed %r' % (e, a), (n, 0)))
        except Exception as e:  # noqa: BLE001
            out.append(Failure('postprocessing.triangle_area', lib.exc_kind(e), key, case, repr(e), (n, 0)))
    return out


def run_unit(unit, res):
    kind = unit[0]
    _setdt(None)
    if kind in ('seg', 'tri', 'rect'):
        _, lat, emb, k, K = unit
        _setdt(emb[2] if len(emb) > 2 else None)
        L = [(x, y) for x in lat for y in lat]
        E = [emb_pt(p, emb) for p in L]
        if kind == 'seg':
            for idx, (a, b) in enumerate(itertools.product(E, E)):
                if idx % K != k:
                    continue
                fs = check_segment(a, b, E)
                res.count('evaluations', 2 * len(E))
                res.count('states', len(E))
                res.count('transitions', len(E))
                for f in fs:
                    res.fail(f)
                if not fs:
                    res.count('traces', 2)
                if a != b:
                    res.count('nontrivial', len(E) - 2)
            res.sample({'primitive': 'shortest/perpendicular distance', 'a': E[0], 'b': E[5], 'points': len(E), 'embedding(scale,shift)': emb})
        elif kind == 'tri':
            for idx, (f, g, h) in enumerate(itertools.permutations(E, 3)):
                if idx % K != k:
                    continue
                fs = check_triple(f, g, h)
                res.count('evaluations')
                res.count('states')
                res.count('transitions')
                for x in fs:
                    res.fail(x)
                if not fs:
                    res.count('traces')
                if menger_exact_sq(f, g, h) != 0:
                    res.count('nontrivial')
            # symmetry in the arguments: all 6 orders of each unordered triple give the same value
            for idx, tr in enumerate(itertools.combinations(E, 3)):
                if idx % K != k:
                    continue
                try:
                    vals = [float(menger.menger_curvature(np.array(p[0]), np.array(p[1]), np.array(p[2]))) for p in itertools.permutations(tr, 3)]
                except Exception:  # noqa: BLE001
                    continue
                m = max(abs(v) for v in vals)
                if max(vals) - min(vals) > 1e-9 * max(m, 1e-300) and m > 1e-9:
                    res.fail(Failure('menger.menger_curvature', 'not-symmetric', 'triple=%s' % [list(p) for p in tr],
                                     {'oracle': 'trisym', 'pts': [list(p) for p in tr]}, repr(vals), (0, 0)))
        else:
            ivs = [(a, b) for a in lat for b in lat if a <= b]
            rects = [((x0, y0), (x1, y1)) for (x0, x1) in ivs for (y0, y1) in ivs]
            for idx, (ra, rb) in enumerate(itertools.product(rects, rects)):
                if idx % K != k:
                    continue
                amin, amax, bmin, bmax = [emb_pt(p, emb) for p in (ra[0], ra[1], rb[0], rb[1])]
                fs = check_rect(amin, amax, bmin, bmax)
                res.count('evaluations', 2)
                res.count('states')
                res.count('transitions')
                for x in fs:
                    res.fail(x)
                if not fs:
                    res.count('traces')
                if rect_exact(amin, amax, bmin, bmax) > 0:
                    res.count('nontrivial')
                if ra == rb and ra[0][0] < ra[1][0] and ra[0][1] < ra[1][1] and not fs:
                    if float(kr.rect_overlap(*[np.array(v, dtype=float) for v in (amin, amax, bmin, bmax)])) != 1.0:
                        res.fail(Failure('knee_ranking.rect_overlap', 'identical-rectangles-not-1', 'A=B=[%s,%s]' % (amin, amax),
                                         {'oracle': 'rect', 'amin': amin, 'amax': amax, 'bmin': bmin, 'bmax': bmax}, '', (0, 0)))
    elif kind == 'sub':
        _, prof, n, k, K = unit[:5]
        semb = unit[5] if len(unit) > 5 else None
        _setdt(semb[2] if semb else None)
        P = curves.get(prof)
        for i, xs, ys in P.shard(n, k, K):
            if semb:
                if any(v != int(v) for v in list(xs) + list(ys)):
                    continue
                xs, ys = [int(v) * semb[0] + semb[1] for v in xs], [int(v) * semb[0] + semb[1] for v in ys]
            for l in range(n):
                for r in range(l + 1, n):
                    fs = check_subrange(xs, ys, l, r)
                    res.count('evaluations')
                    res.count('states')
                    res.count('transitions', r - l + 1)
                    for f in fs:
                        res.fail(f)
                    if not fs:
                        res.count('traces')
                    if l > 0 and r - l >= 2:
                        res.count('nontrivial')
    else:
        L = unit[1]
        for n in range(1, L + 1):
            for v in itertools.product((0, 1, 2, 3), repeat=n):
                fs = check_vector(v)
                res.count('evaluations', 4)
                res.count('states')
                res.count('transitions')
                for f in fs:
                    res.fail(f)
                if not fs:
                    res.count('traces')
                if len(set(v)) > 1:
                    res.count('nontrivial')
        res.sample({'primitive': 'rank', 'vector': [2, 0, 3, 0, 1]})


def replay(case):
    o = case['oracle']
    _setdt(case.get('dtype'))
    T = lambda p: tuple(p)
    if o == 'segment':
        return check_segment(T(case['a']), T(case['b']), [T(p) for p in case['points']])
    if o == 'triple':
        return check_triple(T(case['f']), T(case['g']), T(case['h']))
    if o == 'trisym':
        tr = [T(p) for p in case['pts']]
        vals = [float(menger.menger_curvature(np.array(p[0]), np.array(p[1]), np.array(p[2]))) for p in itertools.permutations(tr, 3)]
        m = max(abs(v) for v in vals)
        if max(vals) - min(vals) > 1e-9 * max(m, 1e-300) and m > 1e-9:
            return [Failure('menger.menger_curvature', 'not-symmetric', 'replay', case, repr(vals))]
        return []
    if o == 'rect':
        fs = check_rect(T(case['amin']), T(case['amax']), T(case['bmin']), T(case['bmax']))
        if not fs and case['amin'] == case['bmin'] and case['amax'] == case['bmax'] and case['amin'][0] < case['amax'][0] and case['amin'][1] < case['amax'][1]:
            if float(kr.rect_overlap(*[np.array(case[k], dtype=float) for k in ('amin', 'amax', 'bmin', 'bmax')])) != 1.0:
                return [Failure('knee_ranking.rect_overlap', 'identical-rectangles-not-1', 'replay', case, '')]
        return fs
    if o == 'sub':
        return check_subrange(case['x'], case['y'], case['l'], case['r'])
    return check_vector(case['v'])
