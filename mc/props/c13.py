"""C13 - worst-knee and corner filters implement exactly their selection rules.

Every curve of the alphabets x EVERY ascending knee list (all 2^n subsets) x thresholds placed on every
attained IoU value (exact ties), between and away from them.  Reference: greedy running minimum with <=,
IoU in exact rational arithmetic; partition, idempotence and order preservation on every case.
"""
import itertools
from fractions import Fraction

import numpy as np

from mc import core, lib, curves
from mc.core import Failure
import kneeliverse.postprocessing as pp

ID = 'C13'
TITLE = 'Worst-knee and corner filters implement exactly their selection rules'
RULE = ('cases = (curve, ascending knee list, threshold) - all subsets of indices as knee lists; non-trivial = the filter removed at least one '
        'knee and kept at least one (worst-knee), or the corner filter/selector split the knees into two non-empty parts')
ASSUMPTIONS = [
    'IoU within 1e-9 of t but not exactly t is ambiguous; an exact tie is decisive when the exact rational IoU equals the float threshold (dyadic values)',
    'heights are compared exactly (the implementation compares the stored floats; the alphabet is exactly representable)',
]
BOUNDS = {'quick': {'re-embedded (x,y*2^-15; y*2^-34; x*2^20,y*2^-50)': 'A12 n=4, G12Y013 n=5', 'A': 'n=3,4 complete x all 2^n knee lists', 'A12': 'n=5 x all knee lists', 'A1': 'n=6 x all knee lists (worst-knee), restricted lists (corner)'},
          'thorough': {'A': 'n<=5 complete x all knee lists', 'A12': 'n=6', 'A1': 'n=7'}}
TECHNIQUE = 'bounded-exhaustive enumeration of curves x all knee subsets x tie thresholds on the real filters against exact-rational reference rules'
LEVEL_TEXT = ('Model checking: every ascending knee list of every small curve (equal heights, plateaus, flat neighbours included), thresholds on/between '
              'every attained IoU; exact greedy running-minimum and IoU rules, partition law, idempotence and order preservation checked on each.')
LEVEL_NOTE = 'Bounded by n and the integer alphabet; float-noise ties are ambiguous by construction.'

FIXED_T = (0.0, 1.0 / 3.0, 0.5, 1.0)


def units(tier, seed):
    if tier == 'quick':
        plan = [('A', 3, 2), ('A', 4, 32), ('A12', 5, 64), ('A1', 6, 32)]
    else:
        plan = [('A', 3, 2), ('A', 4, 16), ('A', 5, 320), ('A12', 6, 320), ('A1', 7, 128)]
    plan += [('Tweb0r', 7, 8), ('Tusr0s64', 7, 16)] if tier == 'quick' else [('Tweb0r', 9, 8), ('Tusr0s64', 9, 16), ('Tusr0s8', 8, 64)]
    b = curves.bonus(seed)
    plan.append((b.name, 4, 32))
    for sx, sy in ((2.0 ** -15, 2.0 ** -15), (1.0, 2.0 ** -34), (2.0 ** 20, 2.0 ** -50)):
        plan.append((curves.scaled(curves.A12, sx, sy).name, 4, 8))
        plan.append((curves.scaled(curves.G12Y013, sx, sy).name, 5, 16))
    return [(prof, n, k, K) for prof, n, K in plan for k in range(K)]


def iou_exact(xs, ys, i):
    """IoU of rect((x[i-1], y[i+1]), p[i]) and rect(p[i-1], p[i+1]) in exact arithmetic."""
    F = Fraction
    p0, p1, p2 = (F(xs[i - 1]), F(ys[i - 1])), (F(xs[i]), F(ys[i])), (F(xs[i + 1]), F(ys[i + 1]))
    c0 = (p0[0], p2[1])
    amin, amax = (min(c0[0], p1[0]), min(c0[1], p1[1])), (max(c0[0], p1[0]), max(c0[1], p1[1]))
    bmin, bmax = (min(p0[0], p2[0]), min(p0[1], p2[1])), (max(p0[0], p2[0]), max(p0[1], p2[1]))
    dx = max(F(0), min(amax[0], bmax[0]) - max(amin[0], bmin[0]))
    dy = max(F(0), min(amax[1], bmax[1]) - max(amin[1], bmin[1]))
    ov = dx * dy
    if ov <= 0:
        return F(0)
    ta = (amax[0] - amin[0]) * (amax[1] - amin[1]) + (bmax[0] - bmin[0]) * (bmax[1] - bmin[1]) - ov
    return ov / ta


def ref_worst(ys, K):
    if len(K) <= 1:
        return list(K)
    out = [K[0]]
    h = ys[K[0]]
    for k in K[1:]:
        if ys[k] <= h:
            out.append(k)
            h = ys[k]
    return out


def call(fn, *a):
    try:
        v = fn(*a)
        return 'ok', [int(x) for x in np.asarray(v).tolist()], None
    except Exception as e:  # noqa: BLE001
        return 'raise', None, e


def check_worst(xs, ys, K):
    n = len(xs)
    pts = curves.points(xs, ys)
    case = {'oracle': 'worst', 'x': list(xs), 'y': list(ys), 'knees': list(K)}
    key = 'filter_worst_knees %s knees=%s' % (lib.pts_key(xs, ys), list(K))
    fn = 'postprocessing.filter_worst_knees'
    st, got, e = call(pp.filter_worst_knees, pts, np.array(K, dtype=int))
    if st != 'ok':
        return None, [Failure(fn, lib.exc_kind(e), key, case, repr(e), (n, len(K)))]
    exp = ref_worst(ys, K)
    if got != exp:
        return got, [Failure(fn, 'not-the-greedy-running-minimum', key, case, 'expected %s observed %s (heights %s)' % (exp, got, [ys[k] for k in K]), (n, len(K)))]
    st, again, e = call(pp.filter_worst_knees, pts, np.array(got, dtype=int))
    if st != 'ok' or again != got:
        return got, [Failure(fn, 'not-idempotent', key, case, 'f(K)=%s f(f(K))=%s' % (got, again), (n, len(K)))]
    return got, []


def check_corner(xs, ys, K, t, ious, stats=None):
    n = len(xs)
    pts = curves.points(xs, ys)
    case = {'oracle': 'corner', 'x': list(xs), 'y': list(ys), 'knees': list(K), 't': t}
    key = 'corner filters %s knees=%s t=%r' % (lib.pts_key(xs, ys), list(K), t)
    out = []
    Ka = np.array(K, dtype=int)
    st1, f, e1 = call(pp.filter_corner_knees, pts, Ka, t)
    st2, s, e2 = call(pp.select_corner_knees, pts, Ka, t)
    if st1 != 'ok':
        return None, [Failure('postprocessing.filter_corner_knees', lib.exc_kind(e1), key, case, repr(e1), (n, len(K)))]
    if st2 != 'ok':
        return None, [Failure('postprocessing.select_corner_knees', lib.exc_kind(e2), key, case, repr(e2), (n, len(K)))]
    T = Fraction(t)
    exp_f, exp_s, amb = [], [], set()
    for k in K:
        if k - 1 >= 0 and k + 1 < n:
            v = ious[k]
            if v == T:
                below = False
                if stats is not None:
                    stats['decisive_ties'] = stats.get('decisive_ties', 0) + 1
            elif abs(float(v) - t) <= 1e-9 * max(1.0, abs(t)):
                amb.add(k)
                if stats is not None:
                    stats['ambiguous'] = stats.get('ambiguous', 0) + 1
                continue
            else:
                below = v < T
            (exp_f if below else exp_s).append(k)
        else:
            exp_f.append(k)
    def same(got, exp):
        return [g for g in got if g not in amb] == exp and all(g in K for g in got) and got == sorted(set(got))
    if not same(f, exp_f):
        out.append(Failure('postprocessing.filter_corner_knees', 'wrong-selection', key, case,
                           'expected %s observed %s (IoU %s)' % (exp_f, f, {k: str(ious.get(k)) for k in K}), (n, len(K))))
    if not same(s, exp_s):
        out.append(Failure('postprocessing.select_corner_knees', 'wrong-selection', key, case,
                           'expected %s observed %s (IoU %s)' % (exp_s, s, {k: str(ious.get(k)) for k in K}), (n, len(K))))
    if not out:
        if sorted(f + s) != list(K) or set(f) & set(s):
            out.append(Failure('postprocessing.filter_corner_knees', 'filter+selector-do-not-partition', key, case, 'filter=%s selector=%s knees=%s' % (f, s, list(K)), (n, len(K))))
        st, ff, e = call(pp.filter_corner_knees, pts, np.array(f, dtype=int), t)
        if st != 'ok' or ff != f:
            out.append(Failure('postprocessing.filter_corner_knees', 'not-idempotent', key, case, 'f(K)=%s f(f(K))=%s %r' % (f, ff, e), (n, len(K))))
        if s:
            st, ss, e = call(pp.select_corner_knees, pts, np.array(s, dtype=int), t)
            if st != 'ok' or ss != s:
                out.append(Failure('postprocessing.select_corner_knees', 'not-idempotent', key, case, 's(K)=%s s(s(K))=%s %r' % (s, ss, e), (n, len(K))))
    return (f, s), out


def knee_lists(n, full):
    idx = list(range(n))
    if full:
        return [list(c) for k in range(0, n + 1) for c in itertools.combinations(idx, k)]
    ls = [idx] + [[i] for i in idx] + [list(c) for c in itertools.combinations(idx, 2)] + [idx[:i] + idx[i + 1:] for i in idx]
    out, seen = [], set()
    for l in ls:
        if tuple(l) not in seen:
            seen.add(tuple(l))
            out.append(l)
    return out


def run_unit(unit, res):
    prof, n, k, K = unit
    P = curves.get(prof)
    stats = {}
    all_lists = knee_lists(n, True)
    corner_lists = all_lists if n <= 5 else knee_lists(n, False)
    first = True
    for i, xs, ys in P.shard(n, k, K):
        for Kn in all_lists:
            got, fs = check_worst(xs, ys, Kn)
            res.count('evaluations')
            res.count('states')
            res.count('transitions', max(len(Kn), 1))
            for f in fs:
                res.fail(f)
            if got is not None and not fs:
                res.count('traces')
                if 0 < len(got) < len(Kn):
                    res.count('nontrivial')
        ious = {j: iou_exact(xs, ys, j) for j in range(1, n - 1)}
        ts = sorted(set(FIXED_T) | set(float(v) for v in ious.values()) |
                    set(float((a + b) / 2) for a, b in zip(sorted(set(ious.values())), sorted(set(ious.values()))[1:])))
        for t in ts:
            for Kn in corner_lists:
                if not Kn:
                    continue
                got, fs = check_corner(xs, ys, Kn, t, ious, stats)
                res.count('evaluations', 2)
                res.count('states')
                res.count('transitions', len(Kn))
                for f in fs:
                    res.fail(f)
                if got is not None and not fs:
                    res.count('traces')
                    if got[0] and got[1]:
                        res.count('nontrivial')
        if first:
            first = False
            res.sample({'profile': prof, 'x': xs, 'y': ys, 'iou': {str(j): str(v) for j, v in ious.items()}, 'thresholds': ts,
                        'knee_lists': len(all_lists)})
    for kk, vv in stats.items():
        res.count(kk, vv)
    res.notes['n_max_' + prof.split('+')[0]] = n


def replay(case):
    xs, ys = case['x'], case['y']
    if case['oracle'] == 'worst':
        _, fs = check_worst(xs, ys, case['knees'])
        return fs
    ious = {j: iou_exact(xs, ys, j) for j in range(1, len(xs) - 1)}
    _, fs = check_corner(xs, ys, case['knees'], case['t'], ious)
    return fs
