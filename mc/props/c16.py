"""C16 - regression metrics and linear-fit helpers equal their mathematical definitions.

All pairs (y, y_hat) of length 1..4 over {0, 1/2, 1, 2, 3} (and their images under the scale family), every
metric and R2 variant; linear-fit wrappers on all small curves with endpoint and grid coefficients.
Oracle: textbook formulas evaluated element-wise in IEEE double and summed with math.fsum (relative
1e-12), exact Fractions where the definition is rational; symmetry / sign / range clauses.
"""
import math
import itertools
from fractions import Fraction

import numpy as np

from mc import core, lib, curves
from mc.core import Failure
from mc.ref import metrics_spec as ms
import kneeliverse.metrics as metrics
import kneeliverse.linear_fit as lf

ID = 'C16'
TITLE = 'Regression metrics and linear-fit helpers equal their mathematical definitions'
RULE = ('cases = (metric, y, y_hat) over the full product of the value alphabet, and (wrapper, curve, coefficients); non-trivial = y != y_hat with a '
        'non-zero expected value (the formula, not just the zero case, is exercised)')
ASSUMPTIONS = ['y, y_hat >= 0 (logarithms / ratios)', 'relative tolerance 1e-12 (1e-9 for R2 near cancellation, absolute 1e-12 x (1 + rss/tss))',
               'alphabet only: this establishes the formulas on the alphabet, not on all reals (stated limit in DESIGN.md)']
BOUNDS = {'quick': {'vector pairs': 'length 1..4 over {0,1/2,1,2,3} (5^8 at length 4)', 'scale family': 'length<=3, 7 rescalings', 'wrapper curves': 'A,P n<=4', 'wrapper vectors (x not increasing)': 'all (x,y) of length 1..4 over x in {0,1,2}, y in {0,1,3}', 'large offsets (x+2^31, y+2^32, ...)': 'best-fit R2 on A12 n=4, G12Y013 n=5', 'function-major call histories': 'every wrapper x 12 lines x every y in {0,1,3}^m on all x in {0,1,2}^m back to back, m=2,3'},
          'thorough': {'vector pairs': 'length 1..5 over {0,1/2,1,2,3} (5^10)', 'scale family': 'length<=4', 'wrapper curves': 'A,P n<=5', 'function-major call histories': 'm=2,3,4'}}
TECHNIQUE = 'exhaustive enumeration of small vector alphabets on the real (numba-jitted) kernels against textbook formulas (fsum / Fraction), in x-major and function-major call orders'
LEVEL_TEXT = ('Model checking by complete enumeration of the vector alphabet: every (y, y_hat) pair up to length 4 (5 thorough) for each metric and R2 variant, '
              'rescaled over 2^-60..2^500, plus every wrapper on every small curve and, as operation sequences, every wrapper on all x vectors back to back (state carried between calls); decisive against formula mutations (wrong exponent, missing abs, wrong denominator, mean vs sum).')
LEVEL_NOTE = 'Alphabet only; numeric behaviour outside it is probed by the scale family only.'

VALS = (0.0, 0.5, 1.0, 2.0, 3.0)
KERNELS = ['rmse', 'rmsle', 'rmspe', 'rpd', 'residuals', 'smape', 'r2', 'r2adj']
GRID_COEF = [(b, m) for b in (0.0, 1.0, -0.5) for m in (0.0, 0.5, -1.0, 2.0)]


def units(tier, seed):
    u = []
    mmax = 4 if tier == 'quick' else 5
    for m in range(1, mmax + 1):
        total = len(VALS) ** (2 * m)
        K = max(1, min(256, total // 12000))
        for k in range(K):
            u.append(('pairs', m, k, K, 1.0))
    smax = 3 if tier == 'quick' else 4
    bonus_scale = [2.0 ** 7, 2.0 ** -20, 1e3, 2.0 ** 100, 1e-10, 3.0][seed % 6]
    for sx, sy in curves.SCALES + [(1.0, bonus_scale)]:
        for m in range(1, smax + 1):
            total = len(VALS) ** (2 * m)
            K = max(1, min(64, total // 12000))
            for k in range(K):
                u.append(('pairs', m, k, K, sy))
    plan = [('A', 3, 2), ('A', 4, 32), ('P', 3, 1), ('P', 4, 4)] if tier == 'quick' else [('A', 4, 16), ('A', 5, 256), ('P', 4, 4), ('P', 5, 32)]
    for prof, n, K in plan:
        for k in range(K):
            u.append(('wrap', prof, n, k, K))
    for m in range(1, (4 if tier == 'quick' else 5) + 1):
        u.append(('wrapvec', m))
    for m in ((2, 3) if tier == 'quick' else (2, 3, 4)):
        u.append(('wraphist', m))
    for prof, n, K in ([('A12', 4, 4), ('G12Y013', 5, 8)] if tier == 'quick' else [('A12', 4, 4), ('A12', 5, 32), ('A1', 7, 32)]):
        for k in range(K):
            u.append(('offset', prof, n, k, K))
    return u


def WARM():
    lib.warm_metrics()


def tol_ok(got, exp, rel=1e-12, ab=0.0):
    if got != got or exp != exp:
        return (got != got) and (exp != exp)
    if got in (float('inf'), float('-inf')) or exp in (float('inf'), float('-inf')):
        return got == exp
    return abs(got - exp) <= rel * max(abs(got), abs(exp)) + ab


def ref_value(name, y, yh):
    if name == 'r2':
        return ms.r2(y, yh, 'fsum')
    if name == 'r2adj':
        return ms.r2(y, yh, 'fsum', adjusted=True)
    return ms.FLOAT[name](y, yh, 'fsum')


def kernel(name, ya, yha):
    if name == 'r2':
        return float(metrics.r2(ya, yha))
    if name == 'r2adj':
        return float(metrics.r2(ya, yha, metrics.R2.adjusted))
    return float(getattr(metrics, name)(ya, yha))


def r2_abs_tol(y, yh):
    mean = math.fsum(y) / len(y)
    tss = math.fsum((a - mean) ** 2 for a in y)
    rss = math.fsum((a - b) ** 2 for a, b in zip(y, yh))
    if tss == 0:
        return 1e-12 * (1.0 + rss)
    q = rss / tss
    return 1e-12 * (1.0 + q) * (len(y) if len(y) > 2 else 1)


def rmsle_abs_tol(y, yh):
    """log(v+1) is only defined to within the rounding of v+1: an absolute error of about one ulp of 1 per logarithm
    (plus the relative rounding of the logarithm itself), whatever way the formula is evaluated.  The root mean
    square of per-element errors is at most their maximum."""
    try:
        L = max([abs(math.log(v + 1.0)) for v in list(y) + list(yh) if v + 1.0 > 0] or [0.0])
    except (ValueError, OverflowError):
        L = 0.0
    return 8 * 2.220446049250313e-16 * (1.0 + L)


SQRT_MIN_NORMAL = 1.5e-154


def abs_tol(name, y, yh):
    if name.startswith('r2'):
        return r2_abs_tol(y, yh)
    if name == 'rmsle':
        return rmsle_abs_tol(y, yh)
    if name in ('rmse', 'rmspe'):
        # squares of differences below sqrt(min normal) underflow in the textbook evaluation (the result is then
        # anywhere between 0 and the true root mean square); an evaluation that avoids the underflow is not wrong
        return SQRT_MIN_NORMAL
    return 0.0


def check_pair(y, yh, names=KERNELS):
    m = len(y)
    ya, yha = np.array(y, dtype=float), np.array(yh, dtype=float)
    out = []
    nontriv = 0
    for name in names:
        if name == 'r2adj' and m < 3:
            continue
        case = {'oracle': 'pair', 'metric': name, 'y': list(y), 'yh': list(yh)}
        key = '%s y=%s y_hat=%s' % (name, list(y), list(yh))
        f = 'metrics.' + ('r2' if name.startswith('r2') else name)
        try:
            got = kernel(name, ya, yha)
        except Exception as e:  # noqa: BLE001
            out.append(Failure(f, lib.exc_kind(e), key, case, repr(e), (m, 0)))
            continue
        try:
            exp = ref_value(name, y, yh)
        except (OverflowError, ZeroDivisionError, ValueError):
            continue
        ab = abs_tol(name, y, yh)
        if not tol_ok(got, exp, 1e-12, ab):
            out.append(Failure(f, 'differs-from-definition' + ('-adjusted' if name == 'r2adj' else ''), key, case, 'expected %r observed %r' % (exp, got), (m, 0)))
            continue
        if exp != 0 and list(y) != list(yh):
            nontriv += 1
        # sign / range / symmetry clauses
        if name in ('rmse', 'rmsle', 'rmspe', 'rpd', 'residuals', 'smape') and not (got >= 0):
            out.append(Failure(f, 'negative', key, case, repr(got), (m, 0)))
        if name in ('rmse', 'rmsle', 'rmspe', 'rpd', 'residuals', 'smape') and list(y) == list(yh) and got != 0:
            out.append(Failure(f, 'non-zero-on-equal-inputs', key, case, repr(got), (m, 0)))
        if name == 'smape' and got > 2.0 + 1e-12:
            out.append(Failure(f, 'smape>2', key, case, repr(got), (m, 0)))
        if name == 'r2' and got > 1.0 + 1e-12:
            out.append(Failure(f, 'r2>1', key, case, repr(got), (m, 0)))
        if name in ('rmse', 'smape', 'residuals'):
            try:
                sym = kernel(name, yha, ya)
                if not tol_ok(got, sym, 1e-12):
                    out.append(Failure(f, 'not-symmetric', key, case, '%r vs %r' % (got, sym), (m, 0)))
            except Exception as e:  # noqa: BLE001
                out.append(Failure(f, lib.exc_kind(e), key, case, repr(e), (m, 0)))
    return nontriv, out


WRAPPERS = [('linear_r2', 'r2'), ('rmspe', 'rmspe'), ('rmsle', 'rmsle'), ('smape', 'smape'), ('rpd', 'rpd'), ('rmse', 'rmse'), ('linear_residuals', 'residuals')]
WRAPPERS_PTS = [('linear_r2_points', 'r2'), ('rmspe_points', 'rmspe'), ('rmsle_points', 'rmsle'), ('smape_points', 'smape'), ('rpd_points', 'rpd'),
                ('rmse_points', 'rmse'), ('linear_residuals_points', 'residuals')]


def pearson_r2_exact(xs, ys):
    X = [Fraction(v) for v in xs]
    Y = [Fraction(v) for v in ys]
    n = len(X)
    mx, my = sum(X) / n, sum(Y) / n
    sxy = sum((a - mx) * (b - my) for a, b in zip(X, Y))
    sxx = sum((a - mx) ** 2 for a in X)
    syy = sum((b - my) ** 2 for b in Y)
    if sxx == 0 or syy == 0:
        return None
    return sxy * sxy / (sxx * syy)


def check_wrappers(xs, ys):
    n = len(xs)
    pts = curves.points(xs, ys)
    x, y = pts[:, 0].copy(), pts[:, 1].copy()
    out = []
    nontriv = 0
    base = {'oracle': 'wrap', 'x': list(xs), 'y': list(ys)}
    key0 = lib.pts_key(xs, ys)
    # endpoint fit passes through the first and last point
    try:
        b, m = lf.linear_fit(x, y)
        bp, mp = lf.linear_fit_points(pts)
        scale = max(abs(v) for v in ys) + abs(m) * max(abs(v) for v in xs) + 1e-300
        if (b, m) != (bp, mp):
            out.append(Failure('linear_fit.linear_fit_points', 'differs-from-linear_fit', key0, base, '%r vs %r' % ((b, m), (bp, mp)), (n, 0)))
        if xs[0] != xs[-1] and (abs(b + m * xs[0] - ys[0]) > 1e-12 * scale or abs(b + m * xs[-1] - ys[-1]) > 1e-12 * scale):
            out.append(Failure('linear_fit.linear_fit', 'endpoint-fit-misses-an-end-point', key0, base,
                               'b=%r m=%r gives %r,%r for end points %r,%r' % (b, m, b + m * xs[0], b + m * xs[-1], ys[0], ys[-1]), (n, 0)))
        coefs = [(float(b), float(m))] + GRID_COEF
    except Exception as e:  # noqa: BLE001
        out.append(Failure('linear_fit.linear_fit', lib.exc_kind(e), key0, base, repr(e), (n, 0)))
        coefs = GRID_COEF
    yl = [float(v) for v in ys]
    for (b, m) in coefs:
        yh = [float(xv) * m + b for xv in xs]
        neg = any(v < 0 for v in yh)
        for (wname, mname), (pname, _) in zip(WRAPPERS, WRAPPERS_PTS):
            if neg and mname in ('rmsle',):
                continue                      # log of negative prediction: outside the domain
            if neg and mname in ('rpd', 'rmspe', 'smape') and False:
                continue
            key = '%s %s coef=(%r,%r)' % (wname, key0, b, m)
            case = dict(base, wrapper=wname, coef=[b, m])
            try:
                got = float(getattr(lf, wname)(x, y, (b, m)))
                gotp = float(getattr(lf, pname)(pts, (b, m)))
            except Exception as e:  # noqa: BLE001
                out.append(Failure('linear_fit.' + wname, lib.exc_kind(e), key, case, repr(e), (n, 0)))
                continue
            try:
                exp = ref_value(mname, yl, yh)
            except (OverflowError, ZeroDivisionError, ValueError):
                continue
            ab = abs_tol(mname, yl, yh)
            if not tol_ok(got, exp, 1e-12, ab):
                out.append(Failure('linear_fit.' + wname, 'differs-from-metric-of-line', key, case, 'expected %r observed %r' % (exp, got), (n, 0)))
            elif not tol_ok(gotp, got, 1e-15, 0.0):
                out.append(Failure('linear_fit.' + pname, 'differs-from-xy-variant', key, case, '%r vs %r' % (gotp, got), (n, 0)))
            elif exp != 0:
                nontriv += 1
        if n >= 3:
            try:
                got = float(lf.linear_r2(x, y, (b, m), metrics.R2.adjusted))
                exp = ref_value('r2adj', yl, yh)
                if not tol_ok(got, exp, 1e-12, r2_abs_tol(yl, yh) * 4):
                    out.append(Failure('linear_fit.linear_r2', 'adjusted-differs-from-definition', '%s coef=(%r,%r)' % (key0, b, m),
                                       dict(base, wrapper='linear_r2_adjusted', coef=[b, m]), 'expected %r observed %r' % (exp, got), (n, 0)))
            except Exception as e:  # noqa: BLE001
                out.append(Failure('linear_fit.linear_r2', lib.exc_kind(e), key0, dict(base, wrapper='linear_r2_adjusted', coef=[b, m]), repr(e), (n, 0)))
    # endpoint-fit residuals helper
    try:
        b, m = ms.endpoint_line([float(v) for v in xs], yl)
        exp = ms.residuals(yl, [float(xv) * m + b for xv in xs])
        got = float(lf.linear_fit_residuals(x, y))
        gotp = float(lf.linear_fit_residuals_points(pts))
        if not tol_ok(got, exp, 1e-12, 1e-24) or got != gotp:
            out.append(Failure('linear_fit.linear_fit_residuals', 'differs-from-definition', key0, dict(base, wrapper='linear_fit_residuals'), 'expected %r observed %r / %r' % (exp, got, gotp), (n, 0)))
    except Exception as e:  # noqa: BLE001
        out.append(Failure('linear_fit.linear_fit_residuals', lib.exc_kind(e), key0, dict(base, wrapper='linear_fit_residuals'), repr(e), (n, 0)))
    # best-fit R2 == squared Pearson correlation
    e2 = pearson_r2_exact(xs, ys)
    try:
        if n <= 2:
            # two points with distinct x and distinct y are perfectly correlated; for fewer points, or a constant
            # coordinate, the Pearson correlation is undefined and the property says nothing
            if e2 is not None and not tol_ok(float(lf.r2_points(pts)), 1.0, 1e-12):
                out.append(Failure('linear_fit.r2_points', 'short-curve-not-1', key0, dict(base, wrapper='r2'), '', (n, 0)))
        elif e2 is not None:
            got = float(lf.r2(x, y))
            gotp = float(lf.r2_points(pts))
            gota = float(lf.r2(x, y, metrics.R2.adjusted))
            e = float(e2)
            ea = 1.0 - (1.0 - e) * ((n - 1) / (n - 2))
            if not tol_ok(got, e, 1e-12, 1e-12) or got != gotp:
                out.append(Failure('linear_fit.r2', 'not-squared-pearson', key0, dict(base, wrapper='r2'), 'expected %r observed %r / %r' % (e, got, gotp), (n, 0)))
            elif not tol_ok(gota, ea, 1e-12, 1e-11):
                out.append(Failure('linear_fit.r2', 'adjusted-correction-wrong', key0, dict(base, wrapper='r2'), 'expected %r observed %r' % (ea, gota), (n, 0)))
            else:
                nontriv += 1
    except Exception as e:  # noqa: BLE001
        out.append(Failure('linear_fit.r2', lib.exc_kind(e), key0, dict(base, wrapper='r2'), repr(e), (n, 0)))
    return nontriv, out


OFFSETS = [(2.0 ** 31, 0.0), (0.0, 2.0 ** 32), (2.0 ** 31, 2.0 ** 32), (-(2.0 ** 27), 2.0 ** 20)]


def check_offset(xs, ys, ox, oy):
    """Best-fit R2 == squared Pearson correlation for data with a large offset relative to its spread
    (timestamps, byte counts).  Tolerance: centring x - mean(x) loses eps*offset/spread relative accuracy."""
    n = len(xs)
    X = [float(v) + ox for v in xs]
    Y = [float(v) + oy for v in ys]
    e2 = pearson_r2_exact(X, Y)
    if e2 is None:
        return 0, []
    pts = curves.points(X, Y)
    case = {'oracle': 'offset', 'x': list(xs), 'y': list(ys), 'ox': ox, 'oy': oy}
    key = 'linear_fit.r2 x=%s+%r y=%s+%r' % (list(xs), ox, list(ys), oy)
    spread = min(max(X) - min(X), max(Y) - min(Y))
    tol = 1e-12 + 64 * lib.EPS * (max(abs(ox), abs(oy), 1.0) / max(spread, 1e-300))
    e = float(e2)
    ea = 1.0 - (1.0 - e) * ((n - 1) / (n - 2))
    out = []
    try:
        got = float(lf.r2(pts[:, 0].copy(), pts[:, 1].copy()))
        gotp = float(lf.r2_points(pts))
        gota = float(lf.r2(pts[:, 0].copy(), pts[:, 1].copy(), metrics.R2.adjusted))
    except Exception as ex:  # noqa: BLE001
        return 0, [Failure('linear_fit.r2', lib.exc_kind(ex), key, case, repr(ex), (n, 0))]
    if not (abs(got - e) <= tol) or got != gotp:
        out.append(Failure('linear_fit.r2', 'not-squared-pearson', key, case, 'expected %r observed %r / %r (tolerance %g)' % (e, got, gotp, tol), (n, 0)))
    elif not (abs(gota - ea) <= tol * 4):
        out.append(Failure('linear_fit.r2', 'adjusted-correction-wrong', key, case, 'expected %r observed %r' % (ea, gota), (n, 0)))
    return 1, out


def check_history(m, ys, coef, wname, mname, xs_seq=None):
    """Function-major operation sequence: the SAME wrapper with the SAME line and y on every x vector of length m, back to back.
    Exposes state carried from one call to the next (memoised projections keyed too weakly); each result is compared with the
    reference value, so the verdict does not rely on an earlier call having been right."""
    out = []
    yl = [float(v) for v in ys]
    b, mm = coef
    seq = []
    n_ok = 0
    # interior values vary fastest: consecutive calls share length, first and last abscissa (and the line), the weakest plausible memo key
    for xs in (xs_seq if xs_seq is not None else sorted(itertools.product((0, 1, 2), repeat=m), key=lambda v: (v[0], v[-1], v[1:-1]))):
        xs = list(xs)
        seq.append(xs)
        yh = [float(xv) * mm + b for xv in xs]
        if mname == 'rmsle' and any(v < 0 for v in yh):
            continue
        try:
            exp = ref_value(mname, yl, yh)
        except (OverflowError, ZeroDivisionError, ValueError):
            continue
        try:
            got = float(getattr(lf, wname)(np.array(xs, dtype=float), np.array(yl), (b, mm)))
        except Exception as e:  # noqa: BLE001
            got = float('nan') if isinstance(e, (ZeroDivisionError, FloatingPointError)) else None
            if got is None:
                out.append(Failure('linear_fit.' + wname, lib.exc_kind(e), 'history %s y=%s coef=(%r,%r) x=%s' % (wname, list(ys), b, mm, xs),
                                   {'oracle': 'hist', 'wrapper': wname, 'metric': mname, 'y': list(ys), 'coef': [b, mm], 'xs_seq': [list(v) for v in seq]}, repr(e), (m, len(seq))))
                break
        if not tol_ok(got, exp, 1e-12, abs_tol(mname, yl, yh)):
            out.append(Failure('linear_fit.' + wname, 'differs-from-metric-of-line-after-earlier-calls', 'history %s y=%s coef=(%r,%r) x=%s' % (wname, list(ys), b, mm, xs),
                               {'oracle': 'hist', 'wrapper': wname, 'metric': mname, 'y': list(ys), 'coef': [b, mm], 'xs_seq': [list(v) for v in seq]},
                               'after %d earlier calls: expected %r observed %r' % (len(seq) - 1, exp, got), (m, len(seq))))
            break
        n_ok += 1
    return n_ok, out


def run_unit(unit, res):
    if unit[0] == 'wraphist':
        m = unit[1]
        for ys in itertools.product((0, 1, 3), repeat=m):
            for coef in GRID_COEF:
                for wname, mname in WRAPPERS:
                    nok, fs = check_history(m, list(ys), coef, wname, mname)
                    res.count('evaluations', 3 ** m)
                    res.count('states', 3 ** m)
                    res.count('transitions', 3 ** m)
                    res.count('history_calls', 3 ** m)
                    res.count('nontrivial', nok)
                    for f in fs:
                        res.fail(f)
                    if not fs:
                        res.count('traces')
        return
    if unit[0] == 'wrapvec':
        # the wrappers are stated for all equal-length vectors: x need not be increasing (single points,
        # vertical segments, closed curves make the endpoint fit degenerate)
        m = unit[1]
        for xs in itertools.product((0, 1, 2), repeat=m):
            for ys in itertools.product((0, 1, 3), repeat=m):
                nt, fs = check_wrappers(list(xs), list(ys))
                res.count('evaluations', 14 * 13)
                res.count('states', 13)
                res.count('transitions', 14 * 13)
                res.count('nontrivial', nt)
                res.count('wrapper_vector_cases')
                for f in fs:
                    res.fail(f)
                if not fs:
                    res.count('traces', 14 * 13)
        return
    if unit[0] == 'offset':
        _, prof, n, k, K = unit
        P = curves.get(prof)
        for i, xs, ys in P.shard(n, k, K):
            for ox, oy in OFFSETS:
                nt, fs = check_offset(xs, ys, ox, oy)
                res.count('evaluations', 3)
                res.count('states')
                res.count('transitions', 3)
                res.count('nontrivial', nt)
                res.count('offset_cases')
                for f in fs:
                    res.fail(f)
                if not fs:
                    res.count('traces', 3)
        return
    if unit[0] == 'pairs':
        _, m, k, K, sy = unit
        nv = len(VALS)
        total = nv ** (2 * m)
        first = True
        for idx in range(k, total, K):
            r = idx
            d = []
            for _ in range(2 * m):
                r, q = divmod(r, nv)
                d.append(VALS[q] * sy)
            d.reverse()
            y, yh = d[:m], d[m:]
            nt, fs = check_pair(y, yh)
            ncalls = len(KERNELS) - (1 if m < 3 else 0)
            res.count('evaluations', ncalls)
            res.count('states', ncalls)
            res.count('transitions', ncalls)
            res.count('nontrivial', nt)
            for f in fs:
                res.fail(f)
            res.count('traces', ncalls - len(fs))
            if first and idx > total // 2:
                first = False
                res.sample({'y': y, 'y_hat': yh, 'kernels': KERNELS})
        res.notes['pair_length_max'] = m
    else:
        _, prof, n, k, K = unit
        P = curves.get(prof)
        for i, xs, ys in P.shard(n, k, K):
            nt, fs = check_wrappers(xs, ys)
            res.count('evaluations', 14 * 13)
            res.count('states', 13)
            res.count('transitions', 14 * 13)
            res.count('nontrivial', nt)
            for f in fs:
                res.fail(f)
            if not fs:
                res.count('traces', 14 * 13)
        res.notes['wrapper_n_max_' + prof] = n


def replay(case):
    if case['oracle'] == 'hist':
        return check_history(len(case['y']), case['y'], tuple(case['coef']), case['wrapper'], case['metric'], case['xs_seq'])[1]
    if case['oracle'] == 'offset':
        return check_offset(case['x'], case['y'], case['ox'], case['oy'])[1]
    if case['oracle'] == 'pair':
        _, fs = check_pair(case['y'], case['yh'], [case['metric']])
        return fs
    _, fs = check_wrappers(case['x'], case['y'])
    return fs
