"""C11 - 1-D linkage clustering follows its stated threshold rule.

The implementation's label sequence must be a run of the reference automaton: at every point i the
decision "new cluster" must equal  D(i, current cluster) >= t  with D computed exactly (Fraction) and the
current cluster being the implementation's own run so far (relational oracle).  Thresholds per instance:
every attainable normalised linkage distance (exact-tie probes), midpoints between consecutive attainable
values, and fixed values.
"""
import math
from fractions import Fraction

import numpy as np

from mc import core, lib, curves
from mc.core import Failure
import kneeliverse.clustering as clustering

ID = 'C11'
TITLE = '1-D linkage clustering follows its stated threshold rule'
RULE = ('cases = (x sequence, y pattern, linkage, threshold), all gap sequences over {1,2,3,4} x offsets x thresholds (all attainable distances, '
        'midpoints, fixed); non-trivial = the labelling has at least one multi-member cluster and at least two clusters')
ASSUMPTIONS = [
    'a distance within 1e-9 relative of t but not exactly t is ambiguous (either decision accepted)',
    'an exact tie D == t is decisive only where the float evaluation is exact under two independent formulas (e.g. x range a power of two)',
    'y values are irrelevant to the rule (three y patterns are enumerated to check exactly that)',
]
BOUNDS = {'quick': {'gaps': '{1,2,3,4}^(n-1), n=2..7', 'x0': '{0,7}', 'y patterns': 3, 're-embedded': 'n<=6 with x0 in {2^31, -2^33} and with x*2^-40'},
          'thorough': {'gaps': '{1,2,3,4}^(n-1), n=2..9', 'x0': '{0,7,-3}', 'y patterns': 3}}
TECHNIQUE = 'bounded-exhaustive enumeration of x sequences and tie/midpoint thresholds; each label sequence validated as a run of the reference linkage automaton (exact rational distances)'
LEVEL_TEXT = ('Model checking: all strictly increasing integer x sequences with gaps in {1..4} up to n=7 (9 thorough), 4 linkages, thresholds placed '
              'exactly on, between and away from every attainable distance; every decision of the real single-pass code compared with the stated rule.')
LEVEL_NOTE = 'Integer x only (ties are exact there); float-noise ties are ambiguous by construction. Bounded by n and gap alphabet.'

LINK = {'single': clustering.single_linkage, 'complete': clustering.complete_linkage,
        'centroid': clustering.centroid_linkage, 'average': clustering.average_linkage}
FIXED_T = (0.01, 0.2, 1.0)


def units(tier, seed):
    nmax = 7 if tier == 'quick' else 9
    x0s = (0, 7) if tier == 'quick' else (0, 7, -3)
    extra = [1, 3, 11, 2, 5, 9][seed % 6]            # bonus offset selected by the seed
    u = []
    for n in range(2, nmax + 1):
        K = 1 if n < 6 else 4 ** (n - 5)
        K = min(K, 64)
        for k in range(K):
            u.append((n, k, K, x0s + (extra * 16,), 1))
    for n in range(2, (6 if tier == 'quick' else 8) + 1):
        K = 1 if n < 6 else 4 ** (n - 5)
        for k in range(K):
            u.append((n, k, K, (2 ** 31, -(2 ** 33)), 1))
            u.append((n, k, K, (0, 5), -40))
    return u


def y_patterns(xs):
    n = len(xs)
    return {'zero': [0] * n, 'same': list(xs), 'big': [1000 - 10 * i for i in range(n)]}


def dist_exact(link, xs, a, i):
    """Exact linkage distance (not yet normalised) of point i to the cluster a..i-1."""
    F = Fraction
    if link == 'single':
        return F(xs[i]) - F(xs[i - 1])
    if link == 'complete':
        return F(xs[i]) - F(xs[a])
    m = i - a
    if link == 'centroid':
        return abs(F(xs[i]) - sum(F(v) for v in xs[a:i]) / m)
    return sum(abs(F(xs[j]) - F(xs[i])) for j in range(a, i)) / m


def dist_float_variants(link, xs, a, i, L):
    """Two independent IEEE evaluations of the normalised distance."""
    L = float(xs[-1]) - float(xs[0])
    if link == 'single':
        v = math.fabs(float(xs[i]) - float(xs[i - 1])) / L
        return (v, abs(float(xs[i] - xs[i - 1])) / L)
    if link == 'complete':
        v = math.fabs(float(xs[i]) - float(xs[a])) / L
        return (v, abs(float(xs[i] - xs[a])) / L)
    if link == 'centroid':
        c, size = float(xs[a]), 1
        for j in range(a + 1, i):
            c = (size / (size + 1)) * c + (1 / (size + 1)) * float(xs[j])
            size += 1
        v1 = math.fabs(float(xs[i]) - c) / L
        v2 = abs(float(xs[i]) - math.fsum(float(v) for v in xs[a:i]) / (i - a)) / L
        return (v1, v2)
    s = 0.0
    for j in range(a, i):
        s += abs(float(xs[j]) - float(xs[i]))
    v1 = s / ((i - a) * L)
    v2 = (math.fsum(abs(float(xs[j]) - float(xs[i])) for j in range(a, i)) / (i - a)) / L
    return (v1, v2)


def attainable(link, xs):
    L = Fraction(xs[-1]) - Fraction(xs[0])
    vals = set()
    n = len(xs)
    for i in range(1, n):
        for a in range(0, i):
            if link == 'single' and a != i - 1:
                continue
            vals.add(dist_exact(link, xs, a, i) / L)
    return sorted(vals)


def thresholds(link, xs):
    at = attainable(link, xs)
    ts = []
    for v in at:
        ts.append(float(v))
    for v, w in zip(at, at[1:]):
        ts.append(float((v + w) / 2))
    for t in FIXED_T:
        ts.append(t)
    return sorted(set(t for t in ts if t > 0))


def check_labels(link, xs, ys, t, stats=None):
    n = len(xs)
    pts = curves.points(xs, ys)
    case = {'oracle': 'labels', 'link': link, 'x': list(xs), 'y': list(ys), 't': t}
    key = '%s_linkage %s t=%r' % (link, lib.pts_key(xs, ys), t)
    fn = 'clustering.%s_linkage' % link
    try:
        lab = LINK[link](pts, t)
        lab = np.asarray(lab).tolist()
    except Exception as e:  # noqa: BLE001
        return None, [Failure(fn, lib.exc_kind(e), key, case, repr(e), (n, 0))]
    if len(lab) != n or lab[0] != 0 or any((b - a) not in (0, 1) for a, b in zip(lab, lab[1:])) or any(float(v) != int(v) for v in lab):
        return None, [Failure(fn, 'labels-not-contiguous-runs-from-0', key, case, 'labels=%s' % lab, (n, 0))]
    L = Fraction(xs[-1]) - Fraction(xs[0])
    T = Fraction(t)
    a = 0
    for i in range(1, n):
        new = lab[i] != lab[i - 1]
        D = dist_exact(link, xs, a, i) / L
        fD = float(D)
        if D == T:
            v1, v2 = dist_float_variants(link, xs, a, i, L)
            if Fraction(v1) == D and Fraction(v2) == D:
                expected = True           # D >= t holds with equality: new cluster
                if stats is not None:
                    stats['decisive_ties'] = stats.get('decisive_ties', 0) + 1
            else:
                expected = None
        elif abs(fD - t) <= 1e-9 * max(1.0, abs(t)):
            expected = None
        else:
            expected = fD >= t
        if expected is None:
            if stats is not None:
                stats['ambiguous'] = stats.get('ambiguous', 0) + 1
        elif expected != new:
            return lab, [Failure(fn, 'merged-although-distance>=t' if expected else 'split-although-distance<t', key, case,
                                 'labels=%s: at point %d the %s distance to cluster [%d..%d] is %s (=%r) vs t=%r' % (
                                     lab, i, link, a, i - 1, D, fD, t), (n, i))]
        if new:
            a = i
    return lab, []


def run_unit(unit, res):
    n, k, K, x0s, sexp = unit
    sc = 2.0 ** sexp if sexp != 1 else 1
    stats = {}
    gaps = (1, 2, 3, 4)
    total = len(gaps) ** (n - 1)
    first = True
    for gi in range(k, total, K):
        g = []
        r = gi
        for _ in range(n - 1):
            r, d = divmod(r, 4)
            g.append(gaps[d])
        g.reverse()
        for x0 in x0s:
            xs = [x0]
            for d in g:
                xs.append(xs[-1] + d)
            if sc != 1:
                xs = [v * sc for v in xs]
            ths = {link: thresholds(link, xs) for link in LINK}
            yp = y_patterns(xs)
            for link in LINK:
                counts = []
                for t in ths[link]:
                    ref_lab = None
                    for yname, ys in yp.items():
                        if yname != 'zero' and x0 != x0s[0]:
                            continue              # y patterns only need one offset
                        lab, fs = check_labels(link, xs, ys, t, stats)
                        res.count('evaluations')
                        for f in fs:
                            res.fail(f)
                        if lab is None:
                            continue
                        res.count('states', n)
                        res.count('transitions', n - 1)
                        if not fs:
                            res.count('traces')
                        if ref_lab is None:
                            ref_lab = lab
                            if lab[-1] >= 1 and lab[-1] < n - 1:
                                res.count('nontrivial')
                        elif lab != ref_lab:
                            res.fail(Failure('clustering.%s_linkage' % link, 'labels-depend-on-y', '%s_linkage %s t=%r' % (link, lib.pts_key(xs, ys), t),
                                             {'oracle': 'ydep', 'link': link, 'x': xs, 'y': ys, 't': t}, 'y=0 gives %s, y=%s gives %s' % (ref_lab, ys, lab), (n, 0)))
                    if ref_lab is not None:
                        counts.append((t, ref_lab[-1] + 1))
                if link in ('single', 'complete'):
                    for (t1, c1), (t2, c2) in zip(counts, counts[1:]):
                        if c2 > c1:
                            res.fail(Failure('clustering.%s_linkage' % link, 'cluster-count-increases-with-t', '%s x=%s t=%r->%r' % (link, xs, t1, t2),
                                             {'oracle': 'mono', 'link': link, 'x': xs, 't1': t1, 't2': t2}, '%d clusters at t=%r, %d at t=%r' % (c1, t1, c2, t2), (n, 0)))
            if first and n >= 4:
                first = False
                res.sample({'x': xs, 'linkage': 'centroid', 'thresholds': ths['centroid'][:8]})
    for kk, vv in stats.items():
        res.count(kk, vv)
    res.notes['n_max'] = n


def replay(case):
    o = case['oracle']
    if o == 'labels':
        _, fs = check_labels(case['link'], case['x'], case['y'], case['t'])
        return fs
    fn = 'clustering.%s_linkage' % case['link']
    if o == 'ydep':
        xs = case['x']
        a, _ = check_labels(case['link'], xs, [0] * len(xs), case['t'])
        b, _ = check_labels(case['link'], xs, case['y'], case['t'])
        if a != b:
            return [Failure(fn, 'labels-depend-on-y', 'replay', case, '%s vs %s' % (a, b))]
        return []
    xs = case['x']
    a, _ = check_labels(case['link'], xs, [0] * len(xs), case['t1'])
    b, _ = check_labels(case['link'], xs, [0] * len(xs), case['t2'])
    if a is not None and b is not None and b[-1] > a[-1]:
        return [Failure(fn, 'cluster-count-increases-with-t', 'replay', case, '%s vs %s' % (a, b))]
    return []
