"""C05 - fixed-size RDP is an exact-size, nested greedy refinement.

History exploration: for every curve x distance x order the chain of calls k = 0, 1, ..., n+1 is run on
the real code.  State = retained set S_k; transition S_k -> S_{k+1} must be a step of the reference
greedy machine (mc/ref/rdp_spec.next_ok): one index gained, strictly inside a retained segment, farthest
from the chord up to noise, and the segment has the maximal ordering score among splittable segments.
"""
import numpy as np

from mc import core, lib, curves, monitor
from mc.core import Failure
from mc.ref import rdp_spec

ID = 'C05'
TITLE = 'Fixed-size simplification is an exact-size, nested greedy refinement'
RULE = ('cases = chains (curve, distance, order; k = 0..n+1), full product below the bound; non-trivial = a chain in which at '
        'least two retained segments with interior points competed at some step (the ordering clause is not vacuous; needs n >= 5)')
ASSUMPTIONS = [
    'distances / residuals are the library\'s own primitives on the segment (shortest_distance_points, perpendicular_distance_points, linear_fit_residuals_points)',
    'ordering scores compared with relative 1e-9 plus a noise floor of 64 eps x magnitude (exactly collinear candidates are interchangeable)',
    'farthest-point tolerance is relative: d >= dmax - (1e-9 dmax + 64 eps max|coordinate|); if every distance < eps any interior point is admissible (library guard)',
]
BOUNDS = {
    'quick': {'A12 / Y013 re-embedded (y*2^-34; x*2^-20,y*2^-27; y*2^34)': 'n=5 / n=7', 'trace windows': 'web0_reduced.csv w=14, usr0.csv[::64] w=16', 'A': 'n<=4 complete', 'A12 (x0=0,gaps 1-2)': 'n=5 complete', 'B,C': 'n=4', 'Y013 (unit gaps, y in 0,1,3)': 'n=7 complete'},
    'thorough': {'A': 'n<=5 complete', 'A12': 'n=6 complete', 'B,C': 'n=5', 'A1': 'n=7', 'Y013': 'n=8 complete'},
}
TECHNIQUE = 'history exploration of rdp_fixed (k = 0..n+1) on all small curves; every step checked against the reference greedy split machine'
LEVEL_TEXT = ('Model checking over histories: the whole chain k=0..n+1 for every curve of the alphabets up to the bound, 2 distances x 3 orders; '
              'sizes, nesting and each single refinement step validated against the reference transition relation with tie sets.')
LEVEL_NOTE = 'Ordering clause first bites at n=5 (two competing segments) and n=7 (three); both are enumerated completely on a reduced alphabet.'


def units(tier, seed):
    if tier == 'quick':
        plan = [('A', 2, 1), ('A', 3, 2), ('A', 4, 16), ('A12', 5, 48), ('B', 4, 4), ('C', 4, 4), ('Y013', 7, 16)]
    else:
        plan = [('A', 2, 1), ('A', 3, 2), ('A', 4, 8), ('A', 5, 256), ('A12', 6, 256), ('B', 5, 32), ('C', 5, 32), ('A1', 7, 32), ('Y013', 8, 32)]
    plan += [('Tweb0r', 14, 8), ('Tusr0s64', 16, 16)] if tier == 'quick' else [('Tweb0r', 14, 8), ('Tweb0r', 30, 8), ('Tusr0s64', 16, 16), ('Tusr0s64', 40, 16), ('Tusr0s8', 24, 64)]
    b = curves.bonus(seed, curves.A12)
    plan.append((b.name, 5, 48))
    for p in curves.tiny_family(curves.G12Y013 if tier == 'quick' else curves.A12):
        plan.append((p.name, 5, 32))
    for p in curves.tiny_family(curves.Y013):
        plan.append((p.name, 7 if tier == 'quick' else 8, 16 if tier == 'quick' else 32))
    return [('curves', prof, n, k, K) for prof, n, K in plan for k in range(K)]


def WARM():
    lib.warm_metrics()
    monitor.install()


def wellformed(S, n):
    return len(S) >= 2 and S[0] == 0 and S[-1] == n - 1 and all(a < b for a, b in zip(S, S[1:]))


def check_chain(xs, ys, distance, order, seg=None):
    """Runs k = 0..n+1 and validates every step.  Returns (failures, info) with info = dict(states,
    transitions, competed) or None when the chain left C05's domain (C01 failures)."""
    n = len(xs)
    pts = curves.points(xs, ys)
    base = {'oracle': 'chain', 'x': list(xs), 'y': list(ys), 'distance': distance, 'order': order}
    key0 = 'rdp_fixed %s distance=%s order=%s' % (lib.pts_key(xs, ys), distance, order)
    if seg is None:
        seg = rdp_spec.Seg(pts, distance)
    chain = {}
    out = []
    for k in range(0, n + 2):
        cfg = {'length': k, 'distance': distance, 'order': order}
        st, v, _ = lib.guarded(4 * n + 8, lib.call_simplifier, 'rdp_fixed', pts, cfg)
        if st != 'ok':
            return [], None
        S = np.asarray(v[0]).tolist()
        if not wellformed(S, n):
            return [Failure('rdp.rdp_fixed', 'not-an-index-set-0..n-1', key0 + ' k=%d' % k, dict(base, k=k),
                            'k=%d returned %s' % (k, S), (n, k))], None
        S = [int(a) for a in S]
        chain[k] = S
        want = min(max(k, 2), n)
        if len(S) != want:
            out.append(Failure('rdp.rdp_fixed', 'wrong-size', key0 + ' k=%d' % k, dict(base, k=k),
                               'k=%d: %d indices %s, expected %d' % (k, len(S), S, want), (n, k)))
    if out:
        return out, None
    maxcomp = 0
    steps = 0
    for k in range(2, n):
        A, Bn = chain[k], chain[k + 1]
        gained = sorted(set(Bn) - set(A))
        if not set(A) <= set(Bn) or len(gained) != 1:
            out.append(Failure('rdp.rdp_fixed', 'not-nested', key0 + ' k=%d' % k, dict(base, k=k),
                               'S_%d=%s S_%d=%s' % (k, A, k + 1, Bn), (n, k)))
            continue
        try:
            ok, why, comp = rdp_spec.next_ok(seg, order, A, gained[0])
        except Exception as e:  # noqa: BLE001
            out.append(Failure('rdp.rdp_fixed', 'primitive-' + lib.exc_kind(e), key0, dict(base, k=k), repr(e), (n, k)))
            continue
        maxcomp = max(maxcomp, comp)
        steps += 1
        if not ok:
            kind = 'not-farthest-point' if 'farthest' in why else ('not-max-score-segment' if 'score' in why else 'gained-index-outside-segment')
            out.append(Failure('rdp.rdp_fixed', kind, key0 + ' k=%d' % k, dict(base, k=k),
                               'S_%d=%s -> S_%d=%s: %s' % (k, A, k + 1, Bn, why), (n, k)))
    for k in (0, 1):
        if chain[k] != chain[2]:
            out.append(Failure('rdp.rdp_fixed', 'k<2-differs-from-k=2', key0, dict(base, k=k), '%s vs %s' % (chain[k], chain[2]), (n, k)))
    if chain[n + 1] != chain[n]:
        out.append(Failure('rdp.rdp_fixed', 'k>n-differs-from-k=n', key0, dict(base, k=n + 1), '%s vs %s' % (chain[n + 1], chain[n]), (n, n + 1)))
    return out, {'states': n - 1, 'transitions': max(steps, 1), 'competed': maxcomp, 'chain': chain}


def run_unit(unit, res):
    _, prof, n, k, K = unit
    P = curves.get(prof)
    first = True
    for i, xs, ys in P.shard(n, k, K):
        pts = curves.points(xs, ys)
        for distance in lib.DIST_NAMES:
            seg = rdp_spec.Seg(pts, distance)
            for order in lib.ORDER_NAMES:
                fs, info = check_chain(xs, ys, distance, order, seg)
                res.count('evaluations', n + 2)
                res.count('chains')
                for f in fs:
                    res.fail(f)
                if info is None:
                    if not fs:
                        res.count('skipped_c01_domain')
                    continue
                res.count('states', info['states'])
                res.count('transitions', info['transitions'])
                if not fs:
                    res.count('traces')
                if info['competed'] >= 2:
                    res.count('nontrivial')
                if info['competed'] >= 3:
                    res.count('three_way_competition')
                if first and n >= 5 and info['competed'] >= 2:
                    first = False
                    res.sample({'profile': prof, 'x': xs, 'y': ys, 'distance': distance, 'order': order,
                                'chain': {str(kk): vv for kk, vv in info['chain'].items()}})
    res.notes['n_max_' + prof.split('+')[0]] = n


def replay(case):
    fs, _ = check_chain(case['x'], case['y'], case['distance'], case['order'])
    return fs
