"""C06 - global RDP stops at the first refinement whose global cost meets the threshold.

Differential model checking against the fixed-size chain: with S_k = rdp_fixed(points, k, distance,
order) and c_k = compute_global_cost(points, S_k, cost) on a FRESH cache,
    grdp            == S_k*  for the least k* >= 2 with c_k* accepting (all points if none),
    mp_grdp(m)      == S_max(k*, min(m, n))   (continuation of non-initial stack / retained set),
    min_point_rdp   == grdp result of the largest listed t with >= m points, else rdp_fixed(m).
Thresholds include values just below / just above every attained c_k (2^-20 relative).  Costs within 1e-9 of t,
equality included, are ambiguous: every k* they allow is accepted.
"""
import itertools
import numpy as np

from mc import core, lib, curves, monitor
from mc.core import Failure
from mc.ref import evaluation_spec as es

import kneeliverse.evaluation as evaluation

ID = 'C06'
TITLE = 'Global RDP stops at the first refinement whose global cost meets the threshold'
RULE = ('cases = (curve, distance, order, metric, threshold[, min_points]) full product below the bound, thresholds = fixed values plus the neighbours (2^-20 relative) of every '
        'attained global cost c_k of the chain; non-trivial = the accepted refinement has k* > 2 (at least one insertion) and k* < n')
ASSUMPTIONS = [
    'the fixed-size chain S_k is taken from rdp.rdp_fixed itself (its own correctness is C05) and c_k from evaluation.compute_global_cost with a fresh cache (its definition is C15)',
    'c_k within 1e-9 relative of t (equality included: the statement does not assign it to a side) is ambiguous - every k* this allows is accepted',
]
BOUNDS = {
    'quick': {'A': 'n<=3 complete', 'G12Y013 (gaps 1-2, y in 0,1,3)': 'n=4,5 complete', 'tie thresholds/chain': 3, 'Y013': 'n=6 (2 metrics)', 'trace windows': 'web0_reduced.csv w=10, usr0.csv[::64] w=12'},
    'thorough': {'A': 'n<=4 complete', 'A12': 'n=5 complete', 'G12Y013': 'n=6 complete', 'B': 'n=5', 'Y013': 'n=7 (2 metrics)', 'tie thresholds/chain': 4},
}
TECHNIQUE = 'bounded-exhaustive differential exploration: grdp / mp_grdp / min_point_rdp versus the rdp_fixed chain and fresh-cache global costs, with thresholds just below and just above every attained cost'
LEVEL_TEXT = ('Model checking: every curve of the alphabets up to the bound x 5 metrics x 2 distances x 3 orders x thresholds (incl. the neighbours of every attained cost) x min_points; '
              'the three global variants must select exactly the first accepting member of the fixed-size chain, which also checks that the shared '
              'segment cache never changes a decision and that the grdp -> rdp_fixed hand-over continues the same greedy path.')
LEVEL_NOTE = 'Differential: a defect shared by rdp_fixed and grdp is C05\'s to find. Bounded by n and alphabets.'

FIXED_T = {'r2': (0.5, 0.9)}
DEFAULT_T = (0.01, 0.5)
MAX_TIES = 4


def units(tier, seed):
    if tier == 'quick':
        plan = [('A', 3, 4), ('G12Y013', 4, 8), ('G12Y013', 5, 128), ('Y013', 6, 16)]
    else:
        plan = [('A', 3, 4), ('A', 4, 128), ('A12', 5, 256), ('G12Y013', 6, 512), ('B', 5, 256), ('Y013', 7, 64)]
    plan += [('Tweb0r', 10, 8), ('Tusr0s64', 12, 16)] if tier == 'quick' else [('Tweb0r', 10, 8), ('Tweb0r', 20, 8), ('Tusr0s64', 12, 16), ('Tusr0s64', 24, 16)]
    b = curves.bonus(seed, curves.A12)
    plan.append((b.name, 4, 8))
    return [('curves', prof, n, k, K, 3 if tier == 'quick' else 4) for prof, n, K in plan for k in range(K)]


def WARM():
    lib.warm_metrics()
    monitor.install()


def wellformed(S, n):
    return len(S) >= 2 and S[0] == 0 and S[-1] == n - 1 and all(a < b for a, b in zip(S, S[1:]))


def chain_of(pts, n, distance, order):
    ch = {}
    for k in range(2, n + 1):
        st, v, _ = lib.guarded(4 * n + 8, lib.call_simplifier, 'rdp_fixed', pts, {'length': k, 'distance': distance, 'order': order})
        if st != 'ok':
            return None
        S = [int(a) for a in np.asarray(v[0]).tolist()]
        if not wellformed(S, n) or len(S) != k:
            return None
        ch[k] = S
    return ch


def status(metric, c, t, robust):
    """'acc' | 'rej' | 'amb' of cost c against t."""
    if c != c:
        return 'amb'
    if c == t:
        # "on the accepting side of t" does not say to which side equality belongs, and a cost that equals t in one
        # evaluation order is an ulp away in another (DESIGN.md 10.6, rewrite C06s): a tie decides nothing
        return 'amb'
    if abs(c - t) <= 1e-9 * max(1.0, abs(t)):
        return 'amb'
    return 'acc' if lib.accepting(metric, c, t) else 'rej'


def kstar_set(metric, t, ctx, stats):
    """All k* the statement allows (one unless some c_k is ambiguous)."""
    ks = []
    costs, n = ctx.costs(metric), ctx.n
    for k in range(2, n):
        s = status(metric, costs[k], t, lambda: ctx.robust(metric, k))
        if s == 'amb':
            stats['ambiguous'] = stats.get('ambiguous', 0) + 1
            ks.append(k)
            continue
        if costs[k] == t:
            stats['decisive_ties'] = stats.get('decisive_ties', 0) + 1
        if s == 'acc':
            ks.append(k)
            return ks
    ks.append(n)
    return ks


class Ctx:
    """Per (curve, distance, order): the chain and fresh-cache global costs per metric."""

    def __init__(self, xs, ys, distance, order):
        self.xs, self.ys, self.distance, self.order = list(xs), list(ys), distance, order
        self.n = len(xs)
        self.pts = curves.points(xs, ys)
        self.chain = chain_of(self.pts, self.n, distance, order)
        self._costs = {}
        self._robust = {}

    def robust(self, metric, k):
        key = (metric, k)
        if key not in self._robust:
            self._robust[key] = es.robust_global_cost(metric, self.xs, self.ys, self.chain[k])
        return self._robust[key]

    def costs(self, metric):
        v = self._costs.get(metric)
        if v is None:
            v = {k: float(evaluation.compute_global_cost(self.pts, np.array(S), lib.METRIC[metric], {})) for k, S in self.chain.items()}
            self._costs[metric] = v
        return v

    def thresholds(self, metric):
        ts = list(FIXED_T.get(metric, DEFAULT_T))
        c = self.costs(metric)
        ties = []
        for k in range(2, self.n):
            v = c[k]
            if v == v and 0.0 < v < float('inf') and (metric != 'r2' or v <= 1.0) and v not in ts and v not in ties:
                ties.append(v)
        # a threshold EQUAL to an attained cost decides nothing for that member (see status); probe just below and
        # just above it instead (2^-20 relative, far outside the 1e-9 ambiguity window): both sides for the first
        # attained cost, alternating sides for the others
        D = 2.0 ** -20
        out = []
        for i, v in enumerate(ties[:MAX_TIES]):
            for side in ((-1, 1) if i == 0 else ((-1,) if i % 2 else (1,))):
                t = v * (1.0 + side * D)
                if t > 0.0 and (metric != 'r2' or t <= 1.0) and t not in ts and t not in out:
                    out.append(t)
        return ts, out


def check_global(ctx, func, metric, t, m, stats):
    """One grdp / mp_grdp call against the chain."""
    n = ctx.n
    cfg = {'t': t, 'distance': ctx.distance, 'cost': metric, 'order': ctx.order}
    if func == 'mp_grdp':
        cfg['min_points'] = m
    case = {'oracle': 'global', 'func': func, 'x': ctx.xs, 'y': ctx.ys, 'cfg': cfg}
    key = '%s %s %s' % (func, lib.pts_key(ctx.xs, ctx.ys), lib.cfg_key(cfg))
    st, v, _ = lib.guarded(4 * n + 8, lib.call_simplifier, func, ctx.pts, cfg)
    if st != 'ok':
        return None, []
    R = [int(a) for a in np.asarray(v[0]).tolist()]
    if not wellformed(R, n):
        return None, []
    ks = kstar_set(metric, t, ctx, stats)
    if func == 'mp_grdp':
        allowed = [ctx.chain[max(k, min(m, n), 2)] for k in ks]
    else:
        allowed = [ctx.chain[k] for k in ks]
    if R in allowed:
        return (ks, R), []
    c = ctx.costs(metric)
    detail = 'returned %s (%d points); expected %s; k*=%s; chain costs %s' % (
        R, len(R), allowed if len(allowed) > 1 else allowed[0], ks, {k: c[k] for k in sorted(c)})
    if len(R) != len(allowed[0]) and len(allowed) == 1:
        kind = 'stops-too-late' if len(R) > len(allowed[0]) else 'stops-too-early'
    else:
        kind = 'not-the-chain-member'
    return (ks, R), [Failure('rdp.' + func, kind, key, case, detail, (n, len(R)))]


def check_minpoint(xs, ys, ts, m, stats, ctx=None):
    n = len(xs)
    if ctx is None:
        ctx = Ctx(xs, ys, 'shortest', 'segment')
    if ctx.chain is None:
        return None, []
    cfg = {'ts': list(ts), 'min_points': m}
    case = {'oracle': 'minpoint', 'x': list(xs), 'y': list(ys), 'cfg': cfg}
    key = 'min_point_rdp %s %s' % (lib.pts_key(xs, ys), lib.cfg_key(cfg))
    st, v, _ = lib.guarded(4 * n + 8, lib.call_simplifier, 'min_point_rdp', ctx.pts, cfg)
    if st != 'ok':
        return None, []
    R = [int(a) for a in np.asarray(v[0]).tolist()]
    if not wellformed(R, n):
        return None, []
    allowed = []
    decided = False
    for t in sorted(ts, reverse=True):
        ks = kstar_set('smape', t, ctx, stats)
        good = [k for k in ks if k >= m]
        allowed.extend(ctx.chain[k] for k in good)
        if len(good) == len(ks):
            decided = True
            break
    if not decided:
        allowed.append(ctx.chain[min(max(m, 2), n)])
    if R in allowed:
        return R, []
    return R, [Failure('rdp.min_point_rdp', 'wrong-selection', key, case,
                       'returned %s; allowed %s; smape chain costs %s' % (R, allowed, ctx.costs('smape')), (n, len(R)))]


MP_LISTS = [[0.01, 0.001, 0.0001], [0.01, 0.5], [0.5, 0.01], [0.1], [0.0001, 0.5, 0.01]]


def run_unit(unit, res):
    _, prof, n, k, K, maxties = unit
    P = curves.get(prof)
    stats = {}
    reduced_cfg = prof.startswith('Y013')
    first = True
    for i, xs, ys in P.shard(n, k, K):
        for distance in lib.DIST_NAMES:
            for order in lib.ORDER_NAMES:
                ctx = Ctx(xs, ys, distance, order)
                if ctx.chain is None:
                    res.count('skipped_c05_domain')
                    continue
                res.count('chains')
                res.count('states', n - 1)
                for metric in (lib.METRIC_NAMES if not reduced_cfg else ('smape', 'r2')):
                    try:
                        fixed, ties = ctx.thresholds(metric)
                        ties = ties[:maxties + 1]
                    except Exception as e:  # noqa: BLE001
                        res.fail(Failure('evaluation.compute_global_cost', 'primitive-' + lib.exc_kind(e), lib.pts_key(xs, ys),
                                         {'oracle': 'global', 'func': 'grdp', 'x': xs, 'y': ys,
                                          'cfg': {'t': 0.5, 'distance': distance, 'cost': metric, 'order': order}}, repr(e), (n, 0)))
                        continue
                    plan = []
                    for j, t in enumerate(fixed + ties):
                        plan.append(('grdp', t, None))
                        if j == 0 or j == len(fixed):
                            for m in sorted(set([3, n - 1, n + 1])):
                                plan.append(('mp_grdp', t, m))
                        else:
                            plan.append(('mp_grdp', t, n - 1))
                    for func, t, m in plan:
                        info, fs = check_global(ctx, func, metric, t, m, stats)
                        res.count('evaluations')
                        for f in fs:
                            res.fail(f)
                        if info is None:
                            res.count('skipped_c01_domain')
                            continue
                        ks, R = info
                        res.count('transitions', max(len(R) - 2, 1))
                        if not fs:
                            res.count('traces')
                        if 2 < ks[0] < n:
                            res.count('nontrivial')
                        if func == 'mp_grdp' and ks[0] < min(m, n):
                            res.count('handover_continuations')
                if distance == 'shortest' and order == 'segment':
                    for ts in MP_LISTS:
                        for m in sorted(set([0, 3, n - 1, n + 1])):
                            R, fs = check_minpoint(xs, ys, ts, m, stats, ctx)
                            res.count('evaluations')
                            for f in fs:
                                res.fail(f)
                            if R is not None and not fs:
                                res.count('traces')
                                res.count('transitions', max(len(R) - 2, 1))
        if first:
            first = False
            c = Ctx(xs, ys, 'shortest', 'segment')
            if c.chain:
                res.sample({'profile': prof, 'x': xs, 'y': ys, 'chain': {str(a): b for a, b in c.chain.items()},
                            'smape_costs': {str(a): b for a, b in c.costs('smape').items()}})
    for kk, vv in stats.items():
        res.count(kk, vv)
    res.notes['n_max_' + prof.split('+')[0]] = n


def replay(case):
    cfg = case['cfg']
    stats = {}
    if case['oracle'] == 'minpoint':
        _, fs = check_minpoint(case['x'], case['y'], cfg['ts'], cfg['min_points'], stats)
        return fs
    ctx = Ctx(case['x'], case['y'], cfg['distance'], cfg['order'])
    if ctx.chain is None:
        return []
    _, fs = check_global(ctx, case['func'], cfg['cost'], cfg['t'], cfg.get('min_points'), stats)
    return fs
