"""C14 - even-point insertion returns the documented candidates, height-filtered.

All small non-flat curves x EVERY reduction (2^(n-2)) x knee position subsets x (tx, ty) x extremes on
the real add_points_even / add_points_even_knees against a reference recomputation of the statement
(candidate segments by normalised width / height, ceil(w/2tx) points at left + j*int((right-left)/count),
optional extremes, unique + sort + running minimum).  Near-threshold decisions (w ~ 2tx, h ~ ty, w/2tx ~
integer) are ambiguous: the reference then yields every admissible output.
"""
import math
import itertools
from fractions import Fraction

import numpy as np

from mc import core, lib, curves
from mc.core import Failure
import kneeliverse.postprocessing as pp
import kneeliverse.rdp as rdp

ID = 'C14'
TITLE = 'Even-point insertion returns the documented candidates, height-filtered'
RULE = ('cases = (curve, reduction, knee subset, tx, ty, extremes), full product below the bound; non-trivial = at least one evenly spaced point was inserted '
        '(some retained segment / knee gap qualified)')
ASSUMPTIONS = ['curves have non-constant x and y', 'w within 1e-9 of 2tx or h within 1e-9 of ty are ambiguous; ceil(w/2tx) is ambiguous only when five IEEE evaluation orders and the exact rational quotient disagree']
BOUNDS = {'quick': {'curves': 'A12 n=3,4 complete; G12Y013 n=5 complete; G12Y013 n=4 and Y013 n=5 re-embedded with y*2^-40, x*2^-40, (x,y)*2^30', 'reductions': 'all 2^(n-2)', 'knee subsets': 'size<=2 positions (even), size 1..2 (knees-as-markers)', '(tx,ty)': '4 incl. the dyadic pair (0.25,0.25) for exact threshold ties', 'extremes': 2},
          'thorough': {'curves': 'A n<=4, A12 n=5, A1 n=6', 'reductions': 'all', 'knee subsets': 'all positions (even), size 1..3 (markers)'}}
TECHNIQUE = 'bounded-exhaustive enumeration of curves x all reductions x knee subsets x thresholds on the real functions against a reference that enumerates every admissible output under threshold ambiguity'
LEVEL_TEXT = ('Model checking: every reduction and knee subset of every small non-flat curve, both variants, both settings of extremes; the output must be one of the admissible '
              'outputs of the reference recomputation of the documented rule, and every index must be valid.')
LEVEL_NOTE = 'Bounded by n and alphabet.'

TXY = [(0.05, 0.05), (0.2, 0.3), (0.3, 0.1), (0.25, 0.25), (0.125, 0.5)]     # the last two: dyadic, exact width AND height ties


def units(tier, seed):
    plan = [('A12', 3, 1), ('A12', 4, 16), ('G12Y013', 5, 96)] if tier == 'quick' else [('A', 3, 2), ('A', 4, 64), ('A12', 5, 256), ('A1', 6, 128)]
    for sx, sy in ((1.0, 2.0 ** -40), (2.0 ** -40, 1.0), (2.0 ** 30, 2.0 ** 30)):
        plan.append((curves.scaled(curves.G12Y013 if tier == 'quick' else curves.A12, sx, sy).name, 4, 8))
        plan.append((curves.scaled(curves.Y013, sx, sy).name, 5, 4))
    plan += [('Tweb0r', 7, 8), ('Tusr0s64', 7, 16)] if tier == 'quick' else [('Tweb0r', 9, 8), ('Tusr0s64', 9, 16)]
    extra = [(0.1, 0.2), (0.5, 0.25), (0.0625, 0.5), (0.4, 0.05), (0.15, 0.15), (0.05, 0.6)][seed % 6]
    return [(prof, n, k, K, tier, extra) for prof, n, K in plan for k in range(K)]


def running_min(ys, idx):
    if len(idx) <= 1:
        return list(idx)
    out = [idx[0]]
    h = ys[idx[0]]
    for k in idx[1:]:
        if ys[k] <= h:
            out.append(k)
            h = ys[k]
    return out


def seg_options(xs, ys, L, R, dx, dy, tx, ty):
    """Admissible lists of inserted indices for the gap (L, R): a list of alternatives."""
    w = abs(float(xs[R]) - float(xs[L])) / dx
    h = abs(float(ys[R]) - float(ys[L])) / dy
    thr = 2.0 * tx

    def near(a, b):
        return abs(a - b) <= 1e-9 * max(1.0, abs(b))
    # strict comparisons w > 2tx and h > ty; a value within 1e-9 of its threshold is ambiguous unless the float
    # AND the exact rational values both sit exactly on the threshold (then "not greater" is decisive)
    wq = abs(Fraction(xs[R]) - Fraction(xs[L])) / Fraction(dx)
    hq = abs(Fraction(ys[R]) - Fraction(ys[L])) / Fraction(dy)

    def verdict(vf, vq, tf):
        if vf == tf and vq == Fraction(tf):
            return [False]
        if near(vf, tf):
            return [False, True]
        return [vf > tf]
    vw, vh = verdict(w, wq, thr), verdict(h, hq, ty)
    qual = sorted(set(a and b for a in vw for b in vh))
    out = []
    for q in qual:
        if not q:
            out.append([])
            continue
        # ceil(w / 2tx): decisive when all plausible IEEE evaluation orders and the exact rational quotient agree
        wx = abs(Fraction(xs[R]) - Fraction(xs[L])) / Fraction(dx)
        counts = {int(math.ceil(v)) for v in (w / thr, (w / 2.0) / tx, w / tx / 2.0, w * (1.0 / thr), 0.5 * w / tx)}
        counts.add(int(math.ceil(wx / (2 * Fraction(tx)))))
        for c in sorted(c for c in counts if c >= 1):
            inc = int((R - L) / c)
            out.append([L + j * inc for j in range(1, c + 1)])
    return out


def admissible(xs, ys, gaps, base, tx, ty, extremes):
    """All admissible outputs: base indices + inserted points per gap + extremes -> unique, sorted, running min."""
    n = len(xs)
    dx = abs(float(max(xs)) - float(min(xs)))
    dy = abs(float(max(ys)) - float(min(ys)))
    opts = [seg_options(xs, ys, L, R, dx, dy, tx, ty) for (L, R) in gaps]
    res = []
    inserted_any = False
    for combo in itertools.product(*opts) if opts else [()]:
        idx = set(base)
        for part in combo:
            idx.update(part)
            if part:
                inserted_any = True
        if extremes:
            idx.update([0, n - 1])
        idx = sorted(idx)
        if any(not (0 <= i < n) for i in idx):
            res.append(('invalid', idx))
        else:
            res.append(('ok', running_min(ys, idx)))
    return res, inserted_any


def check_even(xs, ys, S, kpos, tx, ty, extremes):
    n = len(xs)
    pts = curves.points(xs, ys)
    Sa = np.array(S)
    removed = np.array([[S[i], S[i + 1] - S[i] - 1] for i in range(len(S) - 1)])
    case = {'oracle': 'even', 'x': list(xs), 'y': list(ys), 'reduced': list(S), 'knees': list(kpos), 'tx': tx, 'ty': ty, 'extremes': extremes}
    key = 'add_points_even %s reduced=%s knees=%s tx=%r ty=%r extremes=%s' % (lib.pts_key(xs, ys), list(S), list(kpos), tx, ty, extremes)
    fn = 'postprocessing.add_points_even'
    try:
        got = pp.add_points_even(pts, Sa, np.array(kpos, dtype=int), removed, tx, ty, extremes)
        got = np.asarray(got).tolist()
    except Exception as e:  # noqa: BLE001
        return (None, [Failure(fn, lib.exc_kind(e), key, case, repr(e), (n, len(S)))]), False
    gaps = list(zip(S, S[1:]))
    adm, ins = admissible(xs, ys, gaps, [S[p] for p in kpos], tx, ty, extremes)
    return _judge(fn, key, case, got, adm, n, len(S)), ins


def check_markers(xs, ys, knees, tx, ty, extremes):
    n = len(xs)
    pts = curves.points(xs, ys)
    case = {'oracle': 'markers', 'x': list(xs), 'y': list(ys), 'knees': list(knees), 'tx': tx, 'ty': ty, 'extremes': extremes}
    key = 'add_points_even_knees %s knees=%s tx=%r ty=%r extremes=%s' % (lib.pts_key(xs, ys), list(knees), tx, ty, extremes)
    fn = 'postprocessing.add_points_even_knees'
    try:
        got = pp.add_points_even_knees(pts, np.array(knees, dtype=int), tx, ty, extremes)
        got = np.asarray(got).tolist()
    except Exception as e:  # noqa: BLE001
        return (None, [Failure(fn, lib.exc_kind(e), key, case, repr(e), (n, len(knees)))]), False
    marks = [0] + list(knees) + [n - 1]
    gaps = [(a, b) for a, b in zip(marks, marks[1:])]
    adm, ins = admissible(xs, ys, gaps, list(knees), tx, ty, extremes)
    return _judge(fn, key, case, got, adm, n, len(knees)), ins


def _judge(fn, key, case, got, adm, n, sz):
    if any(float(g) != int(g) or not (0 <= g < n) for g in got):
        return got, [Failure(fn, 'invalid-index', key, case, 'returned %s for n=%d' % (got, n), (n, sz))]
    got = [int(g) for g in got]
    oks = [r for s, r in adm if s == 'ok']
    if got in oks:
        return got, []
    if not oks:
        return got, []            # the documented rule itself leaves the curve (index past the end): undefined
    return got, [Failure(fn, 'differs-from-the-documented-rule', key, case, 'returned %s, documented rule gives %s' % (got, oks[0] if len(oks) == 1 else oks), (n, sz))]


def run_unit(unit, res):
    prof, n, k, K, tier, extra = unit
    P = curves.get(prof)
    first = True
    txy = TXY + [extra]
    for i, xs, ys in P.shard(n, k, K):
        if len(set(ys)) < 2:
            continue
        for S in curves.subsets_with_ends(n):
            pos = list(range(len(S)))
            maxk = 2 if tier == 'quick' else len(S)
            ksets = [list(c) for r in range(0, maxk + 1) for c in itertools.combinations(pos, r)]
            for kp in ksets:
                for tx, ty in txy:
                    for ex in (False, True):
                        (got, fs), ins = check_even(xs, ys, S, kp, tx, ty, ex)
                        _tally(res, got, fs, ins)
        idx = list(range(n))
        mk = 2 if tier == 'quick' else 3
        for r in range(1, mk + 1):
            for kn in itertools.combinations(idx, r):
                for tx, ty in txy:
                    for ex in (False, True):
                        (got, fs), ins = check_markers(xs, ys, list(kn), tx, ty, ex)
                        _tally(res, got, fs, ins)
        if first:
            first = False
            res.sample({'profile': prof, 'x': xs, 'y': ys, 'reductions': 2 ** (n - 2), '(tx,ty)': txy})
    res.notes['n_max_' + prof.split('+')[0]] = n


def _tally(res, got, fs, ins):
    res.count('evaluations')
    res.count('states')
    res.count('transitions')
    for f in fs:
        res.fail(f)
    if got is not None and not fs:
        res.count('traces')
    if ins:
        res.count('nontrivial')


def replay(case):
    if case['oracle'] == 'even':
        (got, fs), _ = check_even(case['x'], case['y'], case['reduced'], case['knees'], case['tx'], case['ty'], case['extremes'])
    else:
        (got, fs), _ = check_markers(case['x'], case['y'], case['knees'], case['tx'], case['ty'], case['extremes'])
    return fs
