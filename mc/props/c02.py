"""C02 - recursive multi-knee detection terminates, is well-formed and self-similar.

Part 1 (scripted seam, stateless choice explorer): multi_knee.multi_knee takes the detector as a parameter;
the control logic must be right for EVERY detector honouring the contract "None or an index in
[0, len-2]".  Every answer sequence is enumerated (depth-first, prefix replay) and the output compared with
the reference recursion fed with the same answers, under the loop monitor.
Part 2 (real detectors): all small curves x 5 detectors x thresholds; termination, range, emptiness rule
and the self-similarity equation result == {k} U MK(points[:k+1]) U (k+1 + MK(points[k+1:])).
"""
from fractions import Fraction
import numpy as np

from mc import core, lib, curves, monitor, choices
from mc.core import Failure
import kneeliverse.multi_knee as mk
import kneeliverse.metrics as metrics
import kneeliverse.linear_fit as lf
import kneeliverse.curvature as curvature
import kneeliverse.dfdt as dfdt
import kneeliverse.menger as menger
import kneeliverse.lmethod as lmethod
import kneeliverse.kneedle as kneedle

ID = 'C02'
TITLE = 'Recursive multi-knee detection terminates, is well-formed and self-similar'
RULE = ('part 1: cases = complete answer sequences of a scripted detector (all of them below the length bound); part 2: cases = (curve, detector, t1, t2); '
        'non-trivial = at least two knees returned (the recursion really descended)')
ASSUMPTIONS = ['detector contract: None or an index in [0, len-2]; t2 >= detector minimum (curvature/DFDT/Menger/Kneedle 2, L-method 3)',
               'gate: t1 inside the enclosure of all floating-point evaluations of the endpoint-line SMAPE (+-1e-9) is ambiguous - the terms of SMAPE are ill-conditioned where the curve and the line are both ~0',
               'self-similarity is differential (the wrapper on the two slices), no hand-written expectation']
BOUNDS = {'quick': {'scripted': 'all answer sequences for n<=11 (n<=10 with a gate), t2 in 2..4, 3 gate modes', 'real detectors': 'A n<=4, A12 n=5, A1 n=6,7, C n=4, G12Y013 n=5 re-embedded (tiny/huge units), trace windows web0_reduced w=16 and usr0[::64] w=20; t1 in {0,0.01,0.5,1.5}; t2 in {minimum, default}'},
          'thorough': {'scripted': 'all answer sequences for n<=13 (n<=11 with a gate), t2 in 2..4', 'real detectors': 'A n<=5, G12Y013 n=6, A1 n=7,8, C n=5'}}
TECHNIQUE = 'stateless choice-point exploration of the multi-knee wrapper with a scripted detector (all answer sequences) plus bounded-exhaustive differential self-similarity on the real detectors'
LEVEL_TEXT = ('Model checking: (1) every answer sequence of an arbitrary contract-honouring detector up to n=9 (12 thorough) against the reference recursion - this covers the '
              'wrapper\'s control logic for all curves at once; (2) every small curve through the five bundled detectors: termination under the step monitor, range, emptiness and the '
              'self-similarity equation evaluated with the real code on the slices.')
LEVEL_NOTE = 'Scripted part bounded by n; real-detector part bounded by n and alphabets.'


def WARM():
    lib.warm_metrics()
    monitor.install()


# ------------------------------------------------------------------------------------------------
# part 1: scripted detector

def gate_curve(mode, n):
    if mode == 'open':
        xs = list(range(n))
        ys = [((i * 7) % 5) + 1 for i in range(n)]
        return xs, ys, 0.0, metrics.Metrics.smape
    c = n // 2
    xs = list(range(n))
    ys = [float(2 * (c - i) + 3) if i <= c else float(3 + 0.0 * i) + 0.0 for i in range(n)]
    ys = [ys[i] if i <= c else 3.0 + 0.5 * (i - c) for i in range(n)]
    if mode == 'elbow':
        return xs, ys, 0.01, metrics.Metrics.smape
    return xs, ys, 0.9, metrics.Metrics.r2          # 'r2gate'


def ref_gate(pts, left, right, t1, t2, cost):
    pt = pts[left:right]
    if len(pt) <= t2:
        return False
    if len(pt) <= 2:
        r = 0.0 if cost is metrics.Metrics.rmspe else 1.0
    else:
        coef = lf.linear_fit_points(pt)
        r = lf.linear_r2_points(pt, coef) if cost is metrics.Metrics.r2 else lf.smape_points(pt, coef)
    return (r < t1) if cost is metrics.Metrics.r2 else (r >= t1)


def scripted_execution(ch, pts, t1, t2, cost):
    """One execution: real wrapper with a scripted detector, then the reference recursion with the same
    answers.  Returns (status, observed, expected, asked)."""
    n = len(pts)
    memo = {}
    x0 = {float(pts[i, 0]): i for i in range(n)}

    def answer(left, length):
        key = (left, length)
        if key not in memo:
            c = ch.choose(1 + max(length - 1, 0))
            memo[key] = None if c == 0 else c - 1
        return memo[key]

    def det(pt):
        return answer(x0[float(pt[0, 0])], len(pt))

    st, v, mx = lib.guarded(4 * n + 8, mk.multi_knee, det, pts, t1, t2, cost)
    asked = len(memo)

    def ref(left, right):
        if not ref_gate(pts, left, right, t1, t2, cost):
            return []
        k = answer(left, right - left)
        if k is None:
            return []
        idx = k + left
        return ref(left, idx + 1) + [idx] + ref(idx + 1, right)

    exp = sorted(ref(0, n))
    return st, v, exp, asked, mx


def check_scripted(prefix, n, mode, t2):
    xs, ys, t1, cost = gate_curve(mode, n)
    pts = curves.points(xs, ys)
    ch = choices.Chooser(prefix)
    st, v, exp, asked, mx = scripted_execution(ch, pts, t1, t2, cost)
    case = {'oracle': 'scripted', 'n': n, 'mode': mode, 't2': t2, 'choices': list(ch.choices())}
    key = 'scripted detector n=%d gate=%s t2=%d answers=%s' % (n, mode, t2, list(ch.choices()))
    fn = 'multi_knee.multi_knee'
    if st == 'hang':
        return ch, [Failure(fn, 'non-termination', key, case, str(v), (n, len(ch.trace)))], 0
    if st == 'raise':
        return ch, [Failure(fn, lib.exc_kind(v), key, case, repr(v), (n, len(ch.trace)))], 0
    got = np.asarray(v).tolist()
    if any(float(g) != int(g) for g in got) or got != sorted(set(got)) or any(not (0 <= g <= n - 2) for g in got):
        return ch, [Failure(fn, 'not-strictly-increasing-in-[0,n-2]', key, case, 'returned %s' % got, (n, len(ch.trace)))], len(got)
    if [int(g) for g in got] != exp:
        return ch, [Failure(fn, 'differs-from-the-recursive-definition', key, case, 'returned %s, the definition with the same answers gives %s' % (got, exp), (n, len(ch.trace)))], len(got)
    return ch, [], len(got)


# ------------------------------------------------------------------------------------------------
# part 2: real detectors

DETS = {
    'curvature': (curvature.multi_knee, curvature.knee, 2, 3, 1),
    'dfdt': (dfdt.multi_knee, dfdt.knee, 2, 3, 1),
    'menger': (menger.multi_knee, menger.knee, 2, 4, 0),
    'lmethod': (lmethod.multi_knee, lmethod.knee, 3, 4, 1),
    'kneedle': (kneedle.multi_knee, kneedle.knee, 2, 3, 1),
}
T1S = (0.0, 0.01, 0.5, 1.5)


_SI = {}


def smape_interval(xs, ys):
    k = (tuple(xs), tuple(ys))
    if k not in _SI:
        if len(_SI) > 64:
            _SI.clear()
        _SI[k] = _smape_interval(xs, ys)
    return _SI[k]


def _smape_interval(xs, ys):
    """[lo, hi] enclosing every floating-point evaluation of the endpoint-line SMAPE.  A term
    2|yh - y| / (|y| + |yh| + 1e-16) is ill-conditioned where y and yh are both (nearly) zero: the rounding error of
    yh = m x + b, harmless elsewhere, then moves the term anywhere between 0 and 2 (a curve that touches zero at an
    end point of the section).  The exact line is evaluated in rational arithmetic and every term is bounded over
    yh +- delta, delta = 16 u (|y0| + |m| (|x0| + |x|) + |y|)."""
    n = len(xs)
    if n <= 2:
        return 1.0, 1.0
    X = [Fraction(v) for v in xs]
    Y = [Fraction(v) for v in ys]
    if X[0] == X[-1]:
        m, b = Fraction(0), Fraction(0)
    else:
        m = (Y[0] - Y[-1]) / (X[0] - X[-1])
        b = Y[0] - m * X[0]
    eps = Fraction(1, 10 ** 16)
    u = Fraction(1, 2 ** 53)
    lo = hi = Fraction(0)
    for x, y in zip(X, Y):
        yh = m * x + b
        d = 16 * u * (abs(Y[0]) + abs(m) * (abs(X[0]) + abs(x)) + abs(y))
        cands = [yh - d, yh, yh + d]
        vals = [2 * abs(c - y) / (abs(y) + abs(c) + eps) for c in cands]
        lo += Fraction(0) if (yh - d <= y <= yh + d) else min(vals)
        hi += max(vals)
    return float(lo / n), float(hi / n)


def check_real(det, xs, ys, t1, t2):
    n = len(xs)
    pts = curves.points(xs, ys)
    mfun, kfun, _mn, _df, lo = DETS[det]
    case = {'oracle': 'real', 'detector': det, 'x': list(xs), 'y': list(ys), 't1': t1, 't2': t2}
    key = '%s.multi_knee %s t1=%r t2=%d' % (det, lib.pts_key(xs, ys), t1, t2)
    fn = '%s.multi_knee' % det
    B = 4 * n + 8
    st, v, _ = lib.guarded(B, mfun, pts, t1, t2)
    if st == 'hang':
        return None, [Failure(fn, 'non-termination', key, case, str(v), (n, 0))]
    if st == 'raise':
        return None, [Failure(fn, lib.exc_kind(v), key, case, repr(v), (n, 0))]
    got = np.asarray(v).tolist()
    if any(float(g) != int(g) for g in got) or got != sorted(set(got)) or any(not (lo <= g <= n - 2) for g in got):
        return None, [Failure(fn, 'not-strictly-increasing-in-range', key, case, 'returned %s (allowed range [%d,%d])' % (got, lo, n - 2), (n, 0))]
    got = [int(g) for g in got]
    # emptiness rule
    if n <= t2:
        if got:
            return got, [Failure(fn, 'non-empty-on-a-curve-with-<=t2-points', key, case, 'returned %s' % got, (n, 0))]
        return got, []
    lo_s, hi_s = smape_interval(xs, ys)
    w = 1e-9 * max(1.0, abs(t1))
    r = float(lf.smape_points(pts, lf.linear_fit_points(pts))) if n > 2 else 1.0
    if (lo_s - w <= t1 <= hi_s + w and not (lo_s == hi_s == t1)) or not (lo_s - w <= r <= hi_s + w):
        return got, []                                   # ambiguous gate (or the wrapper's SMAPE is off: C16's clause)
    if hi_s < t1:
        if got:
            return got, [Failure(fn, 'non-empty-although-endpoint-smape<t1', key, case, 'smape=%r t1=%r returned %s' % (r, t1, got), (n, 0))]
        return got, []
    st, k, _ = lib.guarded(B, kfun, pts)
    if st != 'ok':
        return got, []                                   # the single-knee detector's own failure is C09's
    if k is None:
        if got:
            return got, [Failure(fn, 'non-empty-although-detector-found-no-knee', key, case, 'returned %s' % got, (n, 0))]
        return got, []
    k = int(k)
    if not (0 <= k <= n - 2):
        return got, []                                   # detector contract broken: C09's clause
    stl, L, _ = lib.guarded(B, mfun, pts[:k + 1], t1, t2)
    str_, R, _ = lib.guarded(B, mfun, pts[k + 1:], t1, t2)
    if stl != 'ok' or str_ != 'ok':
        bad = L if stl != 'ok' else R
        return got, [Failure(fn, 'non-termination' if 'hang' in (stl, str_) else lib.exc_kind(bad), key + ' (on a slice)', case, repr(bad), (n, 0))]
    exp = sorted(set([k] + [int(a) for a in np.asarray(L).tolist()] + [k + 1 + int(a) for a in np.asarray(R).tolist()]))
    if got != exp:
        return got, [Failure(fn, 'not-self-similar', key, case, 'returned %s; knee=%d, left part %s, right part %s => %s' % (
            got, k, np.asarray(L).tolist(), np.asarray(R).tolist(), exp), (n, 0))]
    return got, []


def units(tier, seed):
    u = []
    nmax = 11 if tier == 'quick' else 13
    for mode in ('open', 'elbow', 'r2gate'):
        # t2 < 2 is outside the quantifier (t2 >= detector minimum): sections of one or two points would be handed to the
        # detector, and what then happens is not stated (found by a property-preserving rewrite, DESIGN.md 10.6)
        for t2 in (2, 3, 4):
            for n in range(2, nmax + 1):
                if mode != 'open' and n > (10 if tier == 'quick' else 11):
                    continue
                K = 1 if n <= 8 else (8 if n <= 10 else (32 if n <= 11 else 128))
                for k in range(K):
                    u.append(('scripted', n, mode, t2, k, K))
    if tier == 'quick':
        plan = [('A', 3, 1), ('A', 4, 16), ('A12', 5, 32), ('A1', 6, 8), ('A1', 7, 32), ('C', 4, 4)]
    else:
        plan = [('A', 3, 1), ('A', 4, 8), ('A', 5, 512), ('G12Y013', 6, 128), ('A1', 7, 64), ('A1', 8, 256), ('C', 5, 32)]
    plan += [('Tweb0r', 16, 8), ('Tusr0s64', 20, 16)] if tier == 'quick' else [('Tweb0r', 16, 8), ('Tweb0r', 32, 8), ('Tusr0s64', 20, 16), ('Tusr0s64', 40, 16), ('Tusr0s8', 32, 64)]
    for p in curves.tiny_family(curves.G12Y013):
        plan.append((p.name, 5, 16))
    b = curves.bonus(seed)
    plan.append((b.name, 4, 16))
    for prof, n, K in plan:
        for k in range(K):
            u.append(('real', prof, n, k, K))
    return u


def run_unit(unit, res):
    if unit[0] == 'scripted':
        _, n, mode, t2, k, K = unit
        xs, ys, t1, cost = gate_curve(mode, n)
        pts = curves.points(xs, ys)

        def run(ch):
            return scripted_execution(ch, pts, t1, t2, cost)

        it = choices.explore(run) if K == 1 else choices.explore_sharded(run, k, K)
        count = 0
        for ch, (st, v, exp, asked, mx) in it:
            count += 1
            _, fs, nk = check_scripted(ch.choices(), n, mode, t2) if (st != 'ok' or [int(a) for a in np.asarray(v).tolist()] != exp) else (None, [], len(exp))
            res.count('evaluations')
            res.count('scripted_executions')
            res.count('states', asked + 1)
            res.count('transitions', max(asked, 1))
            res.maxi('max_wrapper_loop_iterations_minus_budget', mx - (4 * n + 8))
            for f in fs:
                res.fail(f)
            if not fs:
                res.count('traces')
            if nk >= 2:
                res.count('nontrivial')
            if count == 40:
                res.sample({'scripted': {'n': n, 'gate': mode, 't2': t2, 'answers(0=None,k+1=index k)': list(ch.choices()), 'result': exp}})
        res.notes['scripted_n_max_t2=%d_%s' % (t2, mode)] = n
        return
    _, prof, n, k, K = unit
    P = curves.get(prof)
    first = True
    for i, xs, ys in P.shard(n, k, K):
        for det, (_, _, t2min, t2def, _) in DETS.items():
            for t2 in sorted(set([t2min, t2def])):
                for t1 in T1S:
                    got, fs = check_real(det, xs, ys, t1, t2)
                    res.count('evaluations')
                    res.count('states')
                    res.count('transitions', max(1, len(got) if got else 1))
                    for f in fs:
                        res.fail(f)
                    if not fs:
                        res.count('traces')
                    if got and len(got) >= 2:
                        res.count('nontrivial')
        if first and n >= 5:
            first = False
            res.sample({'real': {'profile': prof, 'x': xs, 'y': ys, 'detectors': list(DETS), 't1': T1S}})
    res.notes['real_n_max_' + prof.split('+')[0]] = n


def replay(case):
    if case['oracle'] == 'scripted':
        _, fs, _ = check_scripted(tuple(case['choices']), case['n'], case['mode'], case['t2'])
        return fs
    _, fs = check_real(case['detector'], case['x'], case['y'], case['t1'], case['t2'])
    return fs
