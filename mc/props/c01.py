"""C01 - every simplifier terminates (loop iterations bounded linearly in n) with a well-formed reduction.

Direct exploration of the real code: all curves of the profiles below the length bound x the whole
configuration product (2 distances x 5 metrics x 3 orders x thresholds x every k / min_points), each
call run under the loop monitor.  State = (input, configuration, retained set) at a loop head;
transition = one loop iteration of the real code.
"""
from mc import core, lib, curves, monitor
from mc.core import Failure
from mc.ref import rdp_spec

import numpy as np

ID = 'C01'
TITLE = 'Curve simplification always terminates with a well-formed reduction'
RULE = ('cases = (curve, simplifier, configuration), enumerated as a full product below the bound; '
        'non-trivial = the simplifier performed at least one split (more than the two end points retained)')
ASSUMPTIONS = [
    'domain: n >= 2, strictly increasing x, y >= 0, t > 0 (t <= 1 for R2)',
    'loop budget per activation = 4n+8 evaluations of a while header (the abstract split machine, explored here, needs at most 2n-2)',
    'numpy / numba trusted',
]
BOUNDS = {
    'quick': {'A': 'n<=4 complete', 'B,C': 'n<=4 complete', 'A1 (x0=0, unit gaps)': 'n=5 complete',
              'scale family (7 rescalings of A)': 'n<=3', 'trace windows': 'all windows of 12 points of web0_reduced.csv and of usr0.csv[::64]', 'configs/curve': 'whole product'},
    'thorough': {'A': 'n<=5 complete', 'B,C': 'n<=5 complete', 'A1': 'n=6 complete', 'scale family': 'n<=4'},
}
TECHNIQUE = 'bounded-exhaustive exploration of the real simplifiers under a sys.monitoring loop monitor; abstract split machine explored by BFS for the step bound'
LEVEL_TEXT = ('Model checking of the implementation: every curve over the small alphabets (plateaus, collinear runs, zeros, V shapes, '
              'rescaled to 2^-60..2^500) up to the length bound, times the complete configuration product, executed under a step monitor '
              'that turns a hanging loop into a counterexample; well-formedness of (reduced, removed) checked on every execution.')
LEVEL_NOTE = 'Coverage statement for the stated alphabets and n only; other magnitudes are probed by the scale family. Budget 4n+8 carries 2x slack over the explored abstract bound.'


def configs(n):
    """The whole configuration product for a curve of n points: list of (func, cfg)."""
    out = []
    for dist in lib.DIST_NAMES:
        for cost in lib.METRIC_NAMES:
            for t in ((0.5, 0.9, 1.0) if cost == 'r2' else (0.01, 0.5)):
                out.append(('rdp', {'t': t, 'distance': dist, 'cost': cost}))
        for order in lib.ORDER_NAMES:
            for k in range(0, n + 2):
                out.append(('rdp_fixed', {'length': k, 'distance': dist, 'order': order}))
            for cost in lib.METRIC_NAMES:
                for t in ((0.5, 0.9, 1.0) if cost == 'r2' else (0.01, 0.5)):
                    out.append(('grdp', {'t': t, 'distance': dist, 'cost': cost, 'order': order}))
                t = 0.9 if cost == 'r2' else 0.5
                for mp in sorted(set([0, 3, n - 1, n + 1])):
                    out.append(('mp_grdp', {'t': t, 'min_points': mp, 'distance': dist, 'cost': cost, 'order': order}))
    for ts in ([0.01, 0.001, 0.0001], [0.01, 0.5], [0.5, 0.01], [0.1]):
        for mp in sorted(set([0, 3, n, n + 1])):
            out.append(('min_point_rdp', {'ts': ts, 'min_points': mp}))
    return out


_CFG = {}


def cfgs(n):
    if n not in _CFG:
        _CFG[n] = configs(n)
    return _CFG[n]


def units(tier, seed):
    u = []
    if tier == 'quick':
        scale_n = (2, 3)
        plan = [('A', 2, 1), ('A', 3, 4), ('A', 4, 96), ('B', 3, 1), ('B', 4, 16), ('C', 3, 1), ('C', 4, 16), ('A1', 5, 16)]
    else:
        plan = [('A', 2, 1), ('A', 3, 4), ('A', 4, 48), ('A', 5, 640), ('B', 3, 1), ('B', 4, 8), ('B', 5, 64),
                ('C', 3, 1), ('C', 4, 8), ('C', 5, 64), ('A1', 6, 64)]
        scale_n = (2, 3, 4)
    for sx, sy in curves.SCALES:
        p = curves.scaled(curves.A, sx, sy)
        for n in scale_n:
            K = {2: 1, 3: 4, 4: 48}[n]
            plan.append((p.name, n, K))
    plan += [('Tweb0r', 12, 8), ('Tusr0s64', 12, 16)] if tier == 'quick' else [('Tweb0r', 20, 8), ('Tweb0r', 40, 8), ('Tusr0s64', 24, 16), ('Tusr0s64', 48, 16), ('Tusr0s8', 32, 64)]
    b = curves.bonus(seed)
    plan.append((b.name, 3, 4))
    if tier == 'thorough':
        plan.append((b.name, 4, 48))
    for prof, n, K in plan:
        for k in range(K):
            u.append(('curves', prof, n, k, K))
    for n in range(2, 11):
        u.append(('abstract', n))
    return u


def WARM():
    lib.warm_metrics()
    monitor.install()


def budget_for(func, cfg, n):
    return 4 * n + 8


def check_call(func, xs, ys, cfg):
    """One simplifier execution against the well-formedness oracle.  Returns (failures, info)."""
    n = len(xs)
    pts = curves.points(xs, ys)
    case = {'oracle': 'simplifier', 'func': func, 'x': list(xs), 'y': list(ys), 'cfg': cfg}
    key = '%s %s %s' % (func, lib.pts_key(xs, ys), lib.cfg_key(cfg))
    size = (n, 0)
    B = budget_for(func, cfg, n)
    st, v, mx = lib.guarded(B, lib.call_simplifier, func, pts, cfg)
    fn = 'rdp.' + func
    if st == 'hang':
        return [Failure(fn, 'non-termination', key, case, 'loop exceeded %d iterations (%s)' % (B, v), size)], None
    if st == 'raise':
        return [Failure(fn, lib.exc_kind(v), key, case, repr(v), size)], None
    out = []
    try:
        reduced, removed = v
        R = np.asarray(reduced)
        S = R.tolist()
    except Exception as e:  # noqa: BLE001
        return [Failure(fn, 'malformed-return', key, case, repr(v)[:200], size)], None
    ok_int = all(float(a) == int(a) for a in S)
    if not (ok_int and len(S) >= 2 and S[0] == 0 and S[-1] == n - 1 and all(a < b for a, b in zip(S, S[1:]))):
        out.append(Failure(fn, 'reduced-not-strictly-increasing-0..n-1', key, case, 'reduced=%s n=%d' % (S, n), size))
        return out, None
    S = [int(a) for a in S]
    exp = [[S[i], S[i + 1] - S[i] - 1] for i in range(len(S) - 1)]
    try:
        got = np.asarray(removed, dtype=float).reshape(-1, 2).tolist() if len(S) > 1 else []
        shape_ok = np.asarray(removed).ndim == 2 and np.asarray(removed).shape == (len(S) - 1, 2)
    except Exception:  # noqa: BLE001
        got, shape_ok = repr(removed), False
    if not shape_ok or got != [[float(a), float(b)] for a, b in exp]:
        out.append(Failure(fn, 'removed-table-inconsistent', key, case, 'reduced=%s removed=%s expected=%s' % (S, got, exp), size))
    else:
        if len(S) + sum(r[1] for r in exp) != n:
            out.append(Failure(fn, 'retained+dropped!=n', key, case, 'reduced=%s removed=%s' % (S, exp), size))
    return out, (S, mx)


def run_unit(unit, res):
    if unit[0] == 'abstract':
        n = unit[1]
        s1, t1, m1 = rdp_spec.abstract_threshold_machine(n)
        s2, t2, m2 = rdp_spec.abstract_fixed_machine(n)
        res.count('abstract_states', s1 + s2)
        res.count('abstract_transitions', t1 + t2)
        if m1 != max(1, 2 * n - 3) or m2 != max(0, n - 2):
            raise AssertionError('abstract split machine bound broken: n=%d pops=%d steps=%d' % (n, m1, m2))
        res.maxi('abstract_max_pops_minus_2n', m1 - 2 * n)
        return
    _, prof, n, k, K = unit
    P = curves.get(prof)
    cf = cfgs(n)
    B = 4 * n + 8
    first = True
    for i, xs, ys in P.shard(n, k, K):
        for func, cfg in cf:
            fs, info = check_call(func, xs, ys, cfg)
            res.count('evaluations')
            for f in fs:
                res.fail(f)
            if info is not None:
                S, mx = info
                res.count('states', mx + 1)
                res.count('transitions', max(mx, 1))
                if not fs:
                    res.count('traces')
                if len(S) > 2:
                    res.count('nontrivial')
                res.maxi('max_loop_iterations_minus_budget', mx - B)
                res.maxi('max_loop_iterations_over_n', mx / n)
        if first:
            first = False
            res.sample({'profile': prof, 'x': xs, 'y': ys, 'configs': len(cf), 'example_config': cf[min(7, len(cf) - 1)]})
    res.notes['n_max_' + prof.split('+')[0]] = n


def replay(case):
    fs, _ = check_call(case['func'], case['x'], case['y'], case['cfg'])
    return fs
