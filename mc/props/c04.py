"""C04 - threshold RDP keeps a segment only if it fits and splits only where it must.

The output of rdp.rdp must be a terminal state REACHABLE in the reference split machine
(mc/ref/rdp_spec.py): a reachability query that explores every admissible tie choice, not a comparison
with one expected list.  Thresholds include, per curve, every attained segment cost (exact-tie probes:
the only inputs on which `<` and `<=` differ).
"""
import numpy as np

from mc import core, lib, curves, monitor
from mc.core import Failure
from mc.ref import rdp_spec

ID = 'C04'
TITLE = 'Threshold RDP keeps a segment only if it fits and splits only where it must'
RULE = ('cases = (curve, metric, distance, threshold) with thresholds = fixed values plus every attained segment cost of the curve; '
        'non-trivial = the output contains at least one split (an interior retained index) that had to be explained')
ASSUMPTIONS = [
    'segment cost and distances are the library\'s own primitives (linear_fit_points + compute_cost_coef, *_distance_points), as the statement says',
    'a cost within 1e-9 relative of t (but not equal) is ambiguous: either decision accepted',
    'an exact tie cost == t is decisive only if the value is robust (bit-identical under three summation orders in plain IEEE arithmetic)',
    'noise tolerance for "farthest" is relative: d >= dmax - (1e-9 dmax + 64 eps max|coordinate|)',
]
BOUNDS = {
    'quick': {'A': 'n<=4 complete', 'B,C': 'n<=4', 'A1': 'n=5', 'G12Y013 re-embedded (y*2^-34; x*2^-20,y*2^-27; y*2^34)': 'n=5', 'thresholds/curve': '2 fixed + all attained segment costs', 'trace windows': 'web0_reduced.csv w=12, usr0.csv[::64] w=16'},
    'thorough': {'A': 'n<=5 complete', 'B,C': 'n<=5', 'A12': 'n=6', 'thresholds/curve': '2 fixed + all attained segment costs'},
}
TECHNIQUE = 'bounded-exhaustive exploration of rdp.rdp; each output decided by a reachability search in the reference split machine (all tie choices)'
LEVEL_TEXT = ('Model checking: for every curve of the alphabets up to the bound, 5 metrics x 2 distances x thresholds (including exact-tie '
              'thresholds equal to attained segment costs) the real output is accepted only if it is a reachable terminal state of the reference '
              'Ramer-Douglas-Peucker machine built from the library\'s own cost and distance primitives.')
LEVEL_NOTE = 'Trusts the library primitives for cost/distance (their definitions are C16/C17). Bounded by curve length and alphabets.'

FIXED_T = {'r2': (0.5, 0.9)}
DEFAULT_T = (0.01, 0.3)
MAX_TIE_T = 8


def units(tier, seed):
    if tier == 'quick':
        plan = [('A', 3, 2), ('A', 4, 48), ('B', 3, 1), ('B', 4, 8), ('C', 3, 1), ('C', 4, 8), ('A1', 5, 16)]
    else:
        plan = [('A', 3, 2), ('A', 4, 16), ('A', 5, 320), ('B', 4, 4), ('B', 5, 32), ('C', 4, 4), ('C', 5, 32), ('A12', 6, 256)]
    plan += [('Tweb0r', 12, 8), ('Tusr0s64', 16, 16)] if tier == 'quick' else [('Tweb0r', 12, 8), ('Tweb0r', 24, 8), ('Tusr0s64', 16, 16), ('Tusr0s64', 32, 16), ('Tusr0s8', 24, 64)]
    b = curves.bonus(seed)
    plan.append((b.name, 4 if tier == 'thorough' else 3, 48 if tier == 'thorough' else 2))
    for p in curves.tiny_family(curves.G12Y013 if tier == 'quick' else curves.A12):
        plan.append((p.name, 5, 32))
        if tier == 'thorough':
            plan.append((p.name.replace('A12', 'G12Y013'), 6, 128))
            curves.tiny_family(curves.G12Y013)
    return [('curves', prof, n, k, K) for prof, n, K in plan for k in range(K)]


def WARM():
    lib.warm_metrics()
    monitor.install()


def thresholds(seg, metric):
    n = seg.n
    ts = list(FIXED_T.get(metric, DEFAULT_T))
    ties = set()
    for a in range(n):
        for b in range(a + 2, n):
            c = seg.cost(metric, a, b)
            if c == c and 0.0 < c and (metric != 'r2' or c <= 1.0) and c not in ts and c != float('inf'):
                ties.add(c)
    return ts + sorted(ties)[:MAX_TIE_T]


def check_call(xs, ys, metric, distance, t, seg=None, stats=None):
    n = len(xs)
    pts = curves.points(xs, ys)
    cfg = {'t': t, 'distance': distance, 'cost': metric}
    case = {'oracle': 'rdp', 'x': list(xs), 'y': list(ys), 'cfg': cfg}
    key = 'rdp %s %s' % (lib.pts_key(xs, ys), lib.cfg_key(cfg))
    st, v, mx = lib.guarded(4 * n + 8, lib.call_simplifier, 'rdp', pts, cfg)
    if st != 'ok':
        return None, []          # C01's clause
    S = np.asarray(v[0]).tolist()
    if not (len(S) >= 2 and S[0] == 0 and S[-1] == n - 1 and all(a < b for a, b in zip(S, S[1:]))):
        return None, []          # C01's clause
    S = [int(a) for a in S]
    if seg is None:
        seg = rdp_spec.Seg(pts, distance)
    try:
        ok, why = rdp_spec.explain(seg, metric, t, S, stats)
    except Exception as e:  # noqa: BLE001   a library primitive failed inside the oracle
        return S, [Failure('rdp.rdp', 'primitive-' + lib.exc_kind(e), key, case, repr(e), (n, len(S)))]
    if ok:
        return S, []
    kind = 'kept-a-rejecting-segment' if why.startswith('retained segment') else (
        'split-an-accepting-range' if 'accepting cost' in why else 'split-not-at-farthest-point')
    return S, [Failure('rdp.rdp', kind, key, case, 'reduced=%s: %s' % (S, why), (n, len(S)))]


def run_unit(unit, res):
    _, prof, n, k, K = unit
    P = curves.get(prof)
    stats = {}
    first = True
    for i, xs, ys in P.shard(n, k, K):
        pts = curves.points(xs, ys)
        for distance in lib.DIST_NAMES:
            seg = rdp_spec.Seg(pts, distance)
            for metric in lib.METRIC_NAMES:
                try:
                    ts = thresholds(seg, metric)
                except Exception as e:  # noqa: BLE001
                    res.fail(Failure('rdp.compute_cost_coef', 'primitive-' + lib.exc_kind(e), lib.pts_key(xs, ys),
                                     {'oracle': 'rdp', 'x': xs, 'y': ys, 'cfg': {'t': 0.3, 'distance': distance, 'cost': metric}}, repr(e), (n, 0)))
                    continue
                for t in ts:
                    S, fs = check_call(xs, ys, metric, distance, t, seg, stats)
                    res.count('evaluations')
                    for f in fs:
                        res.fail(f)
                    if S is None:
                        res.count('skipped_c01_domain')
                        continue
                    res.count('states', len(S) - 1)
                    res.count('transitions', max(len(S) - 2, 1))
                    if not fs:
                        res.count('traces')
                    if len(S) > 2:
                        res.count('nontrivial')
        if first:
            first = False
            res.sample({'profile': prof, 'x': xs, 'y': ys, 'thresholds_smape_shortest': thresholds(rdp_spec.Seg(pts, 'shortest'), 'smape')})
    for kk, vv in stats.items():
        res.count(kk, vv)
    res.notes['n_max_' + prof.split('+')[0]] = n


def replay(case):
    cfg = case['cfg']
    _, fs = check_call(case['x'], case['y'], cfg['cost'], cfg['distance'], cfg['t'])
    return fs
