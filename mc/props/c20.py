"""C20 - public functions are pure, deterministic, layout-independent and fully linked.

Dynamic half: the operation alphabet is EVERY public function of the 15 modules (found by introspection; a
function without an argument builder is reported as `uncovered`, never as a violation).  Each argument
tuple is presented in five representations (C float64, Fortran order, strided view, int64, read-only);
arguments are compared before/after, the call is repeated, and all representations must agree.
Static half: every name / module-attribute / intra-package call site of the package source is resolved by
a model of Python's name resolution (mc/ref/linker.py); the model is validated against the implementation
by executing the drivers under LINE monitoring (sites on executed lines must behave as predicted).
"""
import os
import sys
import copy
import types
import inspect
import importlib
import traceback

import numpy as np

from mc import core, lib, curves, monitor
from mc.core import Failure
from mc.ref import linker

import kneeliverse.rdp as rdp
import kneeliverse.metrics as metrics
import kneeliverse.linear_fit as lf
import kneeliverse.evaluation as ev
import kneeliverse.clustering as clustering
import kneeliverse.knee_ranking as kr
import kneeliverse.kneedle as kneedle
import kneeliverse.lmethod as lmethod
import kneeliverse.zmethod as zmethod
import kneeliverse.menger as menger
import kneeliverse.curvature as curvature
import kneeliverse.dfdt as dfdt

ID = 'C20'
TITLE = 'Public functions are pure, deterministic, layout-independent and fully linked'
RULE = ('dynamic: cases = (public function, argument tuple, representation), all curves of the profile x every registered argument pattern; non-trivial = calls that returned a '
        'value (not an exception) in every representation; static: cases = reference sites, non-trivial = sites confirmed by execution')
ASSUMPTIONS = ['the cache dict argument is exempt from the purity clause (mutated by contract)',
               'float results compared with relative/absolute 1e-9 across representations (summation order may differ between layouts), indices exactly',
               'static verdicts are only reported when not refuted by execution; sites never executed are counted as static-only',
               'rdp.plot_frame (writes a PNG, prints) is exercised statically only']
BOUNDS = {'quick': {'dynamic': 'Y013 n=6 complete (729 curves) x all registered argument patterns x 5 representations', 'large integers': 'Y013 n=5 complete re-embedded as x*2^32,y*2^32 / x*2^33 / y*2^33 / offset 2^40 on both axes (int64 products overflow, float64 exact)', 'static': 'all reference sites of all 15 modules + __init__'},
          'thorough': {'dynamic': 'A1 n=6 (4096 curves) + Y013 n=7 (2187 curves) + A12 n=5 (16384 curves, uneven gaps)', 'large integers': 'as quick plus 2^45, 2^31 scalings and x = 10^12 + 1000 i', 'static': 'same'}}
TECHNIQUE = 'exhaustive enumeration of public functions x argument patterns x array representations on the real code; exhaustive enumeration of reference sites resolved by a name-resolution model with dynamic conformance replay'
LEVEL_TEXT = ('Model checking: (dynamic) every public function on every curve of the profile in C/F/strided/int64/read-only representations with before/after argument comparison, '
              'repeat-call and cross-representation agreement; (static) every name, module attribute and intra-package call site resolved against the live modules, the resolver being '
              'validated by executing the sites.')
LEVEL_NOTE = 'Dynamic half bounded by the curve profile and the registered argument patterns (uncovered functions are listed in the evidence); the static half is a program-site enumeration, not an execution enumeration.'

MODULES = monitor.PACKAGE_MODULES
NO_INT_MODE = True      # C20 varies the dtype itself (representation 'int')
REPS = ('C', 'F', 'view', 'int', 'ro')


# ------------------------------------------------------------------------------------------------
# argument patterns

class Ctx:
    def __init__(self, xs, ys):
        self.n = n = len(xs)
        self.P = curves.points(xs, ys)
        self.X = self.P[:, 0].copy()
        self.Y = self.P[:, 1].copy()
        self.K = np.array([1, n - 2] if n >= 5 else [1])
        self.K3 = np.array(list(range(1, n - 1)))
        self.S = np.array([0, 2, n - 1]) if n >= 4 else np.array([0, n - 1])
        self.R = np.array([[self.S[i], self.S[i + 1] - self.S[i] - 1] for i in range(len(self.S) - 1)])
        self.E = np.array([[self.X[1], self.Y[1]], [self.X[n - 2] + 0.5, self.Y[n - 2]]])
        b, m = lf.linear_fit(self.X, self.Y)
        self.coef = (float(b), float(m))
        self.Yh = self.X * self.coef[1] + self.coef[0] + 0.25
        self.Yi = self.Y[::-1].copy()                    # a second vector that stays integral when the curve is
        self.Ei = self.P[[1, n - 2]].copy() if n >= 4 else self.P[[1]].copy()
        self.CM = np.array([[2, 1], [1, 5]])
        self.G = np.array([0.5, -1.0, 2.0, 0.25, 0.0, 1.5][:max(n, 3)])
        self.V = self.Y.copy()
        self.MR = np.column_stack((np.arange(1, n + 1, dtype=float), np.sort(self.Y / max(1.0, float(np.max(self.Y))))[::-1]))


M = metrics.Metrics
SPECS = {}


def spec(name):
    def deco(f):
        SPECS[name] = f
        return f
    return deco


def _reg():
    S = SPECS
    for ln in ('single_linkage', 'complete_linkage', 'centroid_linkage', 'average_linkage'):
        S['clustering.' + ln] = lambda c: [((c.P, 0.3), {}), ((c.P, 0.01), {})]
    for f in ('graham_scan', 'graham_scan_lower', 'graham_scan_upper'):
        S['convex_hull.' + f] = lambda c: [((c.P,), {})]
    S['curvature.knee'] = lambda c: [((c.P,), {})]
    S['curvature.multi_knee'] = lambda c: [((c.P,), {}), ((c.P, 0.0, 2), {})]
    S['dfdt.get_knee'] = lambda c: [((c.X, c.Y), {})]
    S['dfdt.get_knee_gradient'] = lambda c: [((c.G,), {})]
    S['dfdt.knee'] = lambda c: [((c.P,), {})]
    S['dfdt.multi_knee'] = lambda c: [((c.P,), {}), ((c.P, 0.0, 2), {})]
    S['evaluation.get_neighbourhood_points'] = lambda c: [((c.P, c.n - 1, 0, 0.9), {})]
    S['evaluation.get_neighbourhood_fast_points'] = lambda c: [((c.P, c.n - 1, 0, 0.9), {})]
    S['evaluation.get_neighbourhood_binary'] = lambda c: [((c.X, c.Y, c.n - 1, 0, 0.9), {})]
    S['evaluation.get_neighbourhood_fast'] = lambda c: [((c.X, c.Y, c.n - 1, 0, 0.9), {})]
    S['evaluation.get_neighbourhood'] = lambda c: [((c.X, c.Y, c.n - 1, 0, 0.9), {})]
    S['evaluation.accuracy_knee'] = lambda c: [((c.P, c.K), {})]
    S['evaluation.accuracy_trace'] = lambda c: [((c.P, c.K), {})]
    for f in ('mae', 'mse', 'rmse', 'rmspe'):
        S['evaluation.' + f] = lambda c: [((c.P, c.K, c.E, s), {}) for s in ev.Strategy] + [((c.P, c.K, c.Ei, ev.Strategy.knees), {})]
    S['evaluation.cm'] = lambda c: [((c.P, c.K, c.E, 0.25), {}), ((c.P, c.K, c.Ei, 0.25), {})]
    for f in ('accuracy', 'f1score', 'mcc'):
        S['evaluation.' + f] = lambda c: [((c.CM,), {})]
    S['evaluation.compute_global_rmse'] = lambda c: [((c.P, c.S), {})]
    S['evaluation.mip'] = lambda c: [((c.P, c.S), {})]
    S['evaluation.compute_cost'] = lambda c: [((c.P, np.array([0.5, 0.25]), m, {}), {}) for m in M]
    S['evaluation.compute_partial_cost'] = lambda c: [((c.Y, c.Yh, m), {}) for m in M] + [((c.Y, c.Yi, m), {}) for m in M]
    S['evaluation.compute_global_cost'] = lambda c: [((c.P, c.S, m), {}) for m in M]
    S['evaluation.compute_global_segment_cost'] = lambda c: [((c.P, np.arange(c.n), M.rpd), {})]
    S['knee_ranking.distances'] = lambda c: [((c.P[0].copy(), c.P), {})]
    S['knee_ranking.rect_overlap'] = lambda c: [((c.P[0].copy(), c.P[2].copy() + 1, c.P[1].copy(), c.P[3].copy() + 2), {})]
    S['knee_ranking.rect'] = lambda c: [((c.P[0].copy(), c.P[2].copy()), {})]
    S['knee_ranking.distance_to_similarity'] = lambda c: [((c.V,), {})]
    S['knee_ranking.rank'] = lambda c: [((c.V,), {})]
    S['knee_ranking.slope_ranking'] = lambda c: [((c.P, c.K, 0.8), {})]
    S['knee_ranking.smooth_ranking'] = lambda c: [((c.P, c.K3, t), {}) for t in (kr.ClusterRanking.left, kr.ClusterRanking.linear, kr.ClusterRanking.right)]
    S['kneedle.differences'] = lambda c: [((c.P, cd, cc), {}) for cd in kneedle.Direction for cc in kneedle.Concavity]
    S['kneedle.knees'] = lambda c: [((c.P, 1.0, 1.0, p), {}) for p in kneedle.PeakDetection] + [((c.P, 0.0, 1.0, p), {}) for p in kneedle.PeakDetection] + [((c.P, 0.5, 2.0, kneedle.PeakDetection.Kneedle), {})]
    S['kneedle.knee'] = lambda c: [((c.P,), {}), ((c.P, 0), {})]
    S['kneedle.multi_knee'] = lambda c: [((c.P,), {}), ((c.P, 0.0, 2), {})]
    for f in ('linear_fit_points', 'linear_hv_residuals_points', 'linear_fit_residuals_points', 'perpendicular_distance'):
        S['linear_fit.' + f] = lambda c: [((c.P,), {})]
    for f in ('linear_fit', 'linear_hv_residuals', 'linear_fit_residuals'):
        S['linear_fit.' + f] = lambda c: [((c.X, c.Y), {})]
    S['linear_fit.linear_transform_points'] = lambda c: [((c.P, c.coef), {})]
    S['linear_fit.linear_transform'] = lambda c: [((c.X, c.coef), {})]
    S['linear_fit.linear_fit_transform_points'] = lambda c: [((c.P,), {}), ((c.P, True), {})]
    S['linear_fit.linear_fit_transform'] = lambda c: [((c.X, c.Y), {}), ((c.X, c.Y, True), {})]
    for f in ('rmspe_points', 'rmsle_points', 'smape_points', 'rpd_points', 'rmse_points', 'linear_residuals_points'):
        S['linear_fit.' + f] = lambda c: [((c.P, c.coef), {})]
    for f in ('rmspe', 'rmsle', 'smape', 'rpd', 'rmse', 'linear_residuals'):
        S['linear_fit.' + f] = lambda c: [((c.X, c.Y, c.coef), {})]
    S['linear_fit.linear_r2_points'] = lambda c: [((c.P, c.coef), {}), ((c.P, c.coef, metrics.R2.adjusted), {})]
    S['linear_fit.linear_r2'] = lambda c: [((c.X, c.Y, c.coef), {}), ((c.X, c.Y, c.coef, metrics.R2.adjusted), {})]
    S['linear_fit.r2_points'] = lambda c: [((c.P,), {}), ((c.P, metrics.R2.adjusted), {})]
    S['linear_fit.r2'] = lambda c: [((c.X, c.Y), {}), ((c.X, c.Y, metrics.R2.adjusted), {})]
    S['linear_fit.angle'] = lambda c: [((c.coef, (0.5, 2.0)), {})]
    S['linear_fit.cross2d'] = lambda c: [((c.P, c.P[::-1].copy()), {})]
    S['linear_fit.shortest_distance_points'] = lambda c: [((c.P, c.P[0].copy(), c.P[-1].copy()), {}), ((c.P, c.P[1].copy(), c.P[1].copy()), {})]
    S['linear_fit.perpendicular_distance_index'] = lambda c: [((c.P, 1, c.n - 1), {})]
    S['linear_fit.perpendicular_distance_points'] = lambda c: [((c.P, c.P[0].copy(), c.P[-1].copy()), {})]
    S['lmethod.compute_error'] = lambda c: [((c.X, c.Y, 2, float(c.X[-1] - c.X[0]), f, k), {}) for f in lmethod.Fit for k in lmethod.Cost]
    S['lmethod.get_knee'] = lambda c: [((c.X, c.Y, f, k), {}) for f in lmethod.Fit for k in lmethod.Cost]
    S['lmethod.knee'] = lambda c: [((c.P, f, i, 4), {}) for f in lmethod.Fit for i in lmethod.Refinement]
    S['lmethod.multi_knee'] = lambda c: [((c.P,), {})]
    S['menger.menger_curvature'] = lambda c: [((c.P[0].copy(), c.P[1].copy(), c.P[2].copy()), {})]
    S['menger.knee'] = lambda c: [((c.P,), {})]
    S['menger.multi_knee'] = lambda c: [((c.P,), {})]
    for f in ('rmse', 'rmsle', 'rmspe', 'rpd', 'residuals', 'smape'):
        S['metrics.' + f] = lambda c: [((c.Y, c.Yh), {}), ((c.Y, c.Yi), {})]
    S['metrics.r2'] = lambda c: [((c.Y, c.Yh), {}), ((c.Y, c.Yh, metrics.R2.adjusted), {}), ((c.Y, c.Yi), {})]
    S['multi_knee.multi_knee'] = lambda c: [((curvature.knee, c.P, 0.0, 2, m), {}) for m in (M.smape, M.r2)]
    S['postprocessing.filter_corner_knees'] = lambda c: [((c.P, c.K3, 0.33), {})]
    S['postprocessing.select_corner_knees'] = lambda c: [((c.P, c.K3, 0.33), {})]
    S['postprocessing.filter_worst_knees'] = lambda c: [((c.P, c.K3), {})]
    S['postprocessing.filter_clusters'] = lambda c: [((c.P, c.K3, clustering.average_linkage, 0.5, m), {}) for m in kr.ClusterRanking]
    S['postprocessing.filter_clusters_corners'] = lambda c: [((c.P, c.K3, clustering.single_linkage, 0.5), {})]
    S['postprocessing.add_points_even'] = lambda c: [((c.P, c.S, np.array([1]), c.R, 0.05, 0.05, e), {}) for e in (False, True)]
    S['postprocessing.add_points_even_knees'] = lambda c: [((c.P, c.K, 0.05, 0.05, e), {}) for e in (False, True)]
    S['postprocessing.triangle_area'] = lambda c: [((c.P[:3].copy(),), {})]
    S['postprocessing.rank_corners_triangle'] = lambda c: [((c.P, c.K3), {})]
    S['postprocessing.rank_corners'] = lambda c: [((c.P, c.K3), {})]
    S['rdp.mapping'] = lambda c: [((np.array([0, 1, 2]), c.S, c.R), {}), ((np.array([1, 2]), c.S, c.R[::-1].copy(), False), {}), (([0, 2], c.S, c.R), {})]
    S['rdp.compute_cost_coef'] = lambda c: [((c.P, c.coef, m), {}) for m in M]
    S['rdp.rdp'] = lambda c: [((c.P, 0.01, d, m), {}) for d in rdp.Distance for m in (M.smape, M.r2)]
    S['rdp.compute_removed_points'] = lambda c: [((c.P, c.S), {})]
    S['rdp.order_triangle'] = lambda c: [((c.P, 2, lf.shortest_distance_points), {})]
    S['rdp.order_area'] = lambda c: [((c.P, 2, lf.perpendicular_distance_points), {})]
    S['rdp.order_segment'] = lambda c: [((c.P, 2), {})]
    S['rdp.rdp_fixed'] = lambda c: [((c.P, 4, d, o), {}) for d in rdp.Distance for o in rdp.Order] + [((c.P, 0), {}), ((c.P, c.n + 1), {})]
    S['rdp.grdp'] = lambda c: [((c.P, 0.01, rdp.Distance.shortest, m, o), {}) for m in (M.smape, M.rmsle) for o in rdp.Order]
    S['rdp.mp_grdp'] = lambda c: [((c.P, 0.5, c.n - 1, rdp.Distance.perpendicular, M.rpd, rdp.Order.area), {}), ((c.P, 1.0, 0, rdp.Distance.shortest, M.r2, rdp.Order.triangle), {})]
    S['rdp.min_point_rdp'] = lambda c: [((c.P, [0.0001, 0.5, 0.01], 3), {}), ((c.P,), {'min_points': 4}), ((c.P, [0.5], c.n), {})]
    S['zmethod.map_index'] = lambda c: [((c.X, c.X[[1, 3]].copy()), {})]
    S['zmethod.knees2'] = lambda c: [((c.MR, 0.05, 0.05, o), {}) for o in zmethod.Outlier]
    S['zmethod.knees'] = lambda c: [((c.MR, 0.2, 0.1, 0.5), {}), ((c.MR, 0.05, 0.05, 0.5, 3 * c.n, [1, 0]), {})]
    S['zmethod.getPoints'] = lambda c: [((c.MR, 0.2, 0.1, 0.5), {}), ((c.MR, 0.2, 0.1, 0.5, True), {})]


_reg()
STATIC_ONLY = {'rdp.plot_frame'}


def public_functions():
    out = {}
    for mn in MODULES:
        mod = importlib.import_module(mn)
        short = mn.split('.')[-1]
        for name, obj in vars(mod).items():
            if name.startswith('_'):
                continue
            f = obj.py_func if hasattr(obj, 'py_func') else obj
            if isinstance(f, types.FunctionType) and f.__module__ == mn:
                out['%s.%s' % (short, name)] = obj
    return out


# ------------------------------------------------------------------------------------------------
# representations, comparison

def integral(a):
    return a.dtype.kind == 'f' and a.size > 0 and bool(np.all(np.isfinite(a))) and bool(np.all(a == np.round(a))) and bool(np.all(np.abs(a) < 2 ** 53))


def represent(a, rep):
    if not isinstance(a, np.ndarray):
        return copy.deepcopy(a) if isinstance(a, (list, dict)) else a
    if rep == 'C':
        return np.ascontiguousarray(a).copy()
    if rep == 'F':
        return np.asfortranarray(a).copy(order='F') if a.ndim == 2 else a.copy()
    if rep == 'view':
        if a.ndim == 2:
            pad = np.zeros((2 * a.shape[0] + 1, 2 * a.shape[1] + 1), dtype=a.dtype)
            pad[::2, ::2][:a.shape[0], :a.shape[1]] = a
            return pad[::2, ::2][:a.shape[0], :a.shape[1]]
        pad = np.zeros(2 * a.shape[0] + 1, dtype=a.dtype)
        pad[::2][:a.shape[0]] = a
        return pad[::2][:a.shape[0]]
    if rep == 'int':
        return a.astype(np.int64) if integral(a) else a.copy()
    if rep == 'ro':
        b = a.copy()
        b.setflags(write=False)
        return b
    raise KeyError(rep)


def snapshot(a):
    if isinstance(a, np.ndarray):
        return ('nd', a.dtype.str, a.shape, a.tobytes() if a.flags.c_contiguous else np.ascontiguousarray(a).tobytes())
    if isinstance(a, (list, tuple)):
        return ('seq', type(a).__name__, tuple(snapshot(v) for v in a))
    if isinstance(a, dict):
        return ('dict',)                      # cache dicts are exempt by contract
    return ('val', repr(a))


def normal(v):
    """Result -> nested python structure for comparison."""
    if isinstance(v, np.ndarray):
        return ('arr', v.shape, [normal(x) for x in v.ravel().tolist()])
    if isinstance(v, (list, tuple)):
        return ('seq', [normal(x) for x in v])
    if isinstance(v, dict):
        return ('dict', sorted((str(k), normal(x)) for k, x in v.items()))
    if isinstance(v, (np.floating, float)):
        return float(v)
    if isinstance(v, (np.integer, int)) and not isinstance(v, bool):
        return int(v)
    if isinstance(v, (np.bool_, bool)):
        return bool(v)
    if v is None:
        return None
    return repr(v)


def same(a, b, tol):
    if isinstance(a, tuple) and isinstance(b, tuple):
        if len(a) != len(b):
            return False
        return all(same(x, y, tol) for x, y in zip(a, b))
    if isinstance(a, list) and isinstance(b, list):
        return len(a) == len(b) and all(same(x, y, tol) for x, y in zip(a, b))
    if isinstance(a, (int, float)) and isinstance(b, (int, float)) and not isinstance(a, bool) and not isinstance(b, bool):
        fa, fb = float(a), float(b)
        if fa != fa or fb != fb:
            return fa != fa and fb != fb
        if fa in (float('inf'), float('-inf')) or fb in (float('inf'), float('-inf')):
            return fa == fb
        if tol == 0:
            return fa == fb
        return abs(fa - fb) <= tol * max(1.0, abs(fa), abs(fb))
    return a == b


LINK_ERRORS = (NameError, AttributeError)


def is_arity_error(e):
    s = str(e)
    return isinstance(e, TypeError) and ('positional argument' in s or 'required' in s or 'unexpected keyword' in s or 'multiple values' in s)


def call_rep(fn, args, kwargs, rep):
    a = tuple(represent(x, rep) for x in args)
    k = {kk: represent(v, rep) for kk, v in kwargs.items()}
    before = [snapshot(x) for x in a] + [snapshot(v) for v in k.values()]
    try:
        r = ('ok', normal(fn(*a, **k)))
    except Exception as e:  # noqa: BLE001
        r = ('exc', type(e).__name__, e)
    after = [snapshot(x) for x in a] + [snapshot(v) for v in k.values()]
    return r, before == after


def describe(args, kwargs):
    def d(v):
        if isinstance(v, np.ndarray):
            return v.tolist()
        if callable(v):
            return getattr(v, '__module__', '') + '.' + getattr(v, '__name__', repr(v))
        if isinstance(v, (list, tuple)):
            return [d(x) for x in v]
        if isinstance(v, dict):
            return {}
        return repr(v) if not isinstance(v, (int, float, str, bool, type(None))) else v
    return [d(a) for a in args], {k: d(v) for k, v in kwargs.items()}


def check_function(name, fn, ctx, xs, ys, idx=None, record=None):
    """All argument patterns of one function on one curve.  Returns (ncalls, nontrivial, failures).
    `record` (dict) receives the C-representation result per pattern, for the call-history comparison."""
    out = []
    ncalls = 0
    nontriv = 0
    pats = SPECS[name](ctx)
    for pi, (args, kwargs) in enumerate(pats):
        if idx is not None and pi != idx:
            continue
        case = {'oracle': 'dynamic', 'function': name, 'x': list(xs), 'y': list(ys), 'pattern': pi}
        da, dk = describe(args, kwargs)
        key = '%s(%s%s) on %s' % (name, ', '.join(str(a)[:60] for a in da[1:] if True), ''.join(', %s=%s' % kv for kv in dk.items()), lib.pts_key(xs, ys))
        key = '%s pattern=%d %s' % (name, pi, lib.pts_key(xs, ys))
        results = {}
        for rep in REPS:
            r, pure = call_rep(fn, args, kwargs, rep)
            ncalls += 1
            results[rep] = r
            if not pure and rep != 'ro':
                out.append(Failure(name, 'modifies-its-arguments', key, case, 'representation %s: an array/list argument differs after the call; args=%s' % (rep, str(da)[:300]), (ctx.n, pi)))
                break
            if r[0] == 'exc' and (isinstance(r[2], LINK_ERRORS) or is_arity_error(r[2])):
                out.append(Failure(name, 'raises:%s' % r[1], 'function ' + name, case, 'representation %s: %r' % (rep, r[2]), (ctx.n, pi)))
                break
        else:
            base = results['C']
            if record is not None:
                record[pi] = base
            # determinism
            r2, _ = call_rep(fn, args, kwargs, 'C')
            ncalls += 1
            if (base[0] != r2[0]) or (base[0] == 'ok' and not same(base[1], r2[1], 0)) or (base[0] == 'exc' and base[1] != r2[1]):
                out.append(Failure(name, 'second-call-differs', key, case, 'first %s second %s' % (str(base)[:200], str(r2)[:200]), (ctx.n, pi)))
                continue
            bad = None
            for rep in ('F', 'view', 'int', 'ro'):
                r = results[rep]
                if rep == 'ro' and r[0] == 'exc' and base[0] == 'ok':
                    continue          # diagnostic only: some numpy routines demand writeable buffers without writing
                if r[0] != base[0] or (r[0] == 'ok' and not same(base[1], r[1], 1e-9)) or (r[0] == 'exc' and r[1] != base[1]):
                    bad = (rep, r)
                    break
            if bad is not None:
                out.append(Failure(name, 'representation-dependent-result[%s]' % bad[0], key, case,
                                   'C float64 gives %s; %s gives %s; args=%s' % (str(base)[:200], bad[0], str(bad[1])[:200], str(da)[:200]), (ctx.n, pi)))
            elif base[0] == 'ok':
                nontriv += 1
    return ncalls, nontriv, out


# ------------------------------------------------------------------------------------------------
# static half + conformance

def static_sites():
    sites = []
    files = {}
    for mn in MODULES + ['kneeliverse']:
        s, f = linker.analyse(mn)
        sites.extend(s)
        files[os.path.realpath(f)] = mn
    return sites, files


_EXEC_TOOL = 4


def executed_lines(drive):
    """Run drive() with LINE events on every package code object; returns the set of (file, line)."""
    mon = sys.monitoring
    seen = set()
    root = os.path.realpath(os.path.join(core.REPO_SRC, 'kneeliverse')) + os.sep

    def on_line(code, line):
        fn = code.co_filename
        if not os.path.realpath(fn).startswith(root):
            return mon.DISABLE
        seen.add((os.path.realpath(fn), line))
        return mon.DISABLE

    mon.use_tool_id(_EXEC_TOOL, 'knee-verif-conformance')
    mon.register_callback(_EXEC_TOOL, mon.events.LINE, on_line)
    mon.set_events(_EXEC_TOOL, mon.events.LINE)
    try:
        raised = drive()
    finally:
        mon.set_events(_EXEC_TOOL, 0)
        mon.register_callback(_EXEC_TOOL, mon.events.LINE, None)
        mon.free_tool_id(_EXEC_TOOL)
    return seen, raised


def run_static(res):
    sites, files = static_sites()
    funcs = public_functions()
    ctxs = [Ctx([0, 1, 2, 3, 4, 5], [3, 2, 2, 1, 3, 0]), Ctx([0, 1, 3, 4, 6, 7], [5, 3, 2, 2, 1, 0]), Ctx([0, 1, 2, 3, 4, 5], [0, 0, 0, 0, 0, 0])]
    root = os.path.realpath(os.path.join(core.REPO_SRC, 'kneeliverse')) + os.sep

    def drive():
        raised = set()
        for name, fn in sorted(funcs.items()):
            if name not in SPECS:
                continue
            for c in ctxs:
                for args, kwargs in SPECS[name](c):
                    try:
                        fn(*[represent(a, 'C') for a in args], **{k: represent(v, 'C') for k, v in kwargs.items()})
                    except Exception as e:  # noqa: BLE001
                        if isinstance(e, LINK_ERRORS) or is_arity_error(e):
                            for fr in traceback.extract_tb(e.__traceback__):
                                if os.path.realpath(fr.filename).startswith(root):
                                    last = (os.path.realpath(fr.filename), fr.lineno)
                            raised.add(last)
        return raised

    seen, raised = executed_lines(drive)
    by_file = {}
    for f, mn in files.items():
        by_file[mn] = f
    n_exec = n_conf = n_static_only = 0
    for s in sites:
        f = by_file.get(s.module)
        loc = (f, s.line)
        executed = loc in seen and not s.conditional
        res.count('evaluations')
        res.count('states')
        res.count('transitions')
        res.count('static_sites')
        if executed:
            n_exec += 1
            failed_here = loc in raised
            if s.ok and not failed_here:
                n_conf += 1
            elif s.ok and failed_here:
                # the line failed at run time although this site resolves: another site of the line is the culprit, or the model is wrong
                pass
            elif not s.ok and failed_here:
                n_conf += 1
            else:
                res.count('static_verdicts_refuted_by_execution')
                continue                      # never report a verdict that execution contradicts
        else:
            n_static_only += 1
        if not s.ok:
            case = {'oracle': 'static', 'module': s.module, 'function': s.func, 'text': s.text, 'kind': s.kind}
            res.fail(Failure('static:' + s.module.split('.')[-1] + '.' + s.func, 'unresolved-' + s.kind, s.key(), case,
                             '%s:%d %s' % (s.module, s.line, s.why), (0, s.line)))
    res.count('traces', n_conf)
    res.count('nontrivial', n_conf)
    res.count('static_sites_executed', n_exec)
    res.count('static_only_sites', n_static_only)
    res.sample({'static': {'sites': len(sites), 'executed': n_exec, 'confirmed_by_execution': n_conf,
                           'example': [s.key() for s in sites[:3]]}})
    uncovered = sorted(set(funcs) - set(SPECS) - STATIC_ONLY)
    res.notes['uncovered_public_functions'] = uncovered
    res.notes['public_functions'] = len(funcs)
    res.notes['functions_with_argument_builders'] = len(set(funcs) & set(SPECS))


BIGINT = [curves.scaled(curves.Y013, 2.0 ** 32, 2.0 ** 32), curves.scaled(curves.Y013, 2.0 ** 33, 1.0), curves.scaled(curves.Y013, 1.0, 2.0 ** 33),
          curves.register(curves.Profile('Y013@2^40', (2 ** 40,), (1,), (2 ** 40, 2 ** 40 + 1, 2 ** 40 + 3))),
          curves.scaled(curves.Y013, 2.0 ** 45, 2.0 ** 45), curves.scaled(curves.Y013, 2.0 ** 31, 2.0 ** 31),
          curves.register(curves.Profile('Y013@1e12', (10 ** 12,), (1000,), (0, 10 ** 6, 3 * 10 ** 6)))]


def units(tier, seed):
    plan = [('Y013', 6, 48)] if tier == 'quick' else [('A1', 6, 256), ('Y013', 7, 128), ('A12', 5, 512)]
    b = curves.bonus(seed, curves.A1)
    plan.append((b.name, 5, 8))
    # "the same results for int64 and float64 representations of the same values": integer coordinates whose
    # products leave the int64 range (timestamps, byte counts) - exact in float64 (< 2^53), wrapped in int64
    for bp in BIGINT if tier == 'thorough' else BIGINT[:4]:
        plan.append((bp.name, 5, 8))
    u = [('dynamic', prof, n, k, K) for prof, n, K in plan for k in range(K)]
    u.append(('static',))
    return u


def WARM():
    lib.warm_metrics()
    # numba compiles one specialisation per (dtype, layout, read-only) signature: run every function once in
    # every representation in the parent so that the forked workers inherit all compiled kernels
    funcs = public_functions()
    for xs, ys in (([0, 1, 2, 3, 4, 5], [3, 2, 2, 1, 3, 0]), ([0, 1, 2, 3, 4, 5], [3, 2, 2.5, 1, 3, 0])):
        ctx = Ctx(xs, ys)
        for name in sorted(funcs):
            if name in SPECS:
                check_function(name, funcs[name], ctx, xs, ys)


def run_unit(unit, res):
    if unit[0] == 'static':
        run_static(res)
        return
    _, prof, n, k, K = unit
    P = curves.get(prof)
    funcs = public_functions()
    first = True
    early = []                       # (xs, ys, {function: {pattern: result}}) of the first curves of the unit
    for i, xs, ys in P.shard(n, k, K):
        ctx = Ctx(xs, ys)
        rec = {}
        early.append((xs, ys, rec))
        for name in sorted(funcs):
            if name not in SPECS:
                continue
            nc, nt, fs = check_function(name, funcs[name], ctx, xs, ys, record=rec.setdefault(name, {}))
            res.count('evaluations', nc)
            res.count('states', nc)
            res.count('transitions', nc)
            res.count('nontrivial', nt)
            for f in fs:
                res.fail(f)
            if not fs:
                res.count('traces', nc)
        if first:
            first = False
            res.sample({'dynamic': {'profile': prof, 'x': xs, 'y': ys, 'functions': len(set(funcs) & set(SPECS)), 'representations': list(REPS)}})
    # "returns identical results when called again": the same calls, later in the history of this process
    # second pass in FUNCTION-major order (the first pass was curve-major): the same call on different curves
    # back to back is what exposes per-function state keyed too weakly
    ctxs = [(xs, ys, rec, Ctx(xs, ys)) for xs, ys, rec in early]
    for name in sorted(funcs):
        if name not in SPECS:
            continue
        for xs, ys, rec, ctx in ctxs:
            pats = rec.get(name, {})
            for pi, (args, kwargs) in enumerate(SPECS[name](ctx)):
                if pi not in pats:
                    continue
                again, _ = call_rep(funcs[name], args, kwargs, 'C')
                res.count('evaluations')
                res.count('history_recalls')
                b = pats[pi]
                if (b[0] != again[0]) or (b[0] == 'ok' and not same(b[1], again[1], 0)) or (b[0] == 'exc' and b[1] != again[1]):
                    res.fail(Failure(name, 'result-depends-on-call-history', '%s pattern=%d %s' % (name, pi, lib.pts_key(xs, ys)),
                                     {'oracle': 'dynamic', 'function': name, 'x': list(xs), 'y': list(ys), 'pattern': pi},
                                     'first call %s; same call after other curves were processed %s' % (str(b)[:200], str(again)[:200]), (ctx.n, pi)))
    res.notes['dynamic_n_max_' + prof.split('+')[0]] = n


def replay(case):
    if case['oracle'] == 'static':
        sites, _ = static_sites()
        out = []
        for s in sites:
            if not s.ok and s.module == case['module'] and s.func == case['function'] and s.text == case['text'] and s.kind == case['kind']:
                out.append(Failure('static:' + s.module.split('.')[-1] + '.' + s.func, 'unresolved-' + s.kind, s.key(), case, s.why))
        return out
    funcs = public_functions()
    name = case['function']
    if name not in funcs:
        return []
    ctx = Ctx(case['x'], case['y'])
    _, _, fs = check_function(name, funcs[name], ctx, case['x'], case['y'], case['pattern'])
    return fs
