"""C03 - every single-knee detector finds the corner of an exact two-slope elbow.

Elbows: arm lengths a, b >= 3 segments, x spacings in {1,2,3,4}, distinct slopes j/8 (|j| <= 64), dyadic
offsets: all coordinates are exactly representable, so the oracle is simply  returned index == a.
The bound is the arm length and the number of deviations of the spacing pattern from uniform; inside the
bound the product is enumerated completely.
"""
import itertools
import numpy as np

from mc import core, lib, curves, monitor
from mc.core import Failure
import kneeliverse.curvature as curvature
import kneeliverse.dfdt as dfdt
import kneeliverse.menger as menger
import kneeliverse.lmethod as lmethod
import kneeliverse.kneedle as kneedle

ID = 'C03'
TITLE = 'Every single-knee detector finds the corner of an exact two-slope elbow'
RULE = ('cases = (elbow curve, detector configuration); elbows enumerated as a full product arms x spacing patterns x slope pairs x offsets below the bound; '
        'non-trivial = every case (an elbow always has a unique corner that must be found); counted as distinct (curve, detector) pairs')
ASSUMPTIONS = ['coordinates exactly representable (slopes j/8, integer spacings, dyadic offsets)', 'Kneedle only on monotone elbows with t=0 (as stated)',
               'L-method refinement run with the default limit=10']
BOUNDS = {
    'quick': {'two-level spacing (left arm gap g1, right arm gap g2, all 16)': 'arms (3,3),(4,4),(3,5),(5,3) x 256 gentle slope pairs (j/8,(j+-1)/8) + 72 pairs', 'arms (3,3)': 'all 4^6 spacing patterns x 12 slope pairs', 'arms {3,4,5}^2': 'patterns with <=1 deviation from uniform x 12 slope pairs x 3 offsets',
              'arms {3,6,9,12}^2': 'uniform spacing + single deviations at 3 positions x 12 slope pairs', 'slopes': '12 representative ordered pairs + all 72 pairs of 9 slopes on uniform (3..5)^2'},
    'thorough': {'arms (3,3),(4,4),(3,5),(5,3)': 'uniform spacings x ALL 16512 ordered slope pairs', 'arms {3..6}^2': '<=1 deviation x 72 slope pairs x 3 offsets',
                 'arms {3,6,9,12,15}^2': 'uniform + single deviations x 24 slope pairs', 'arms (3,3)': 'all 4^6 patterns x 72 pairs'},
}
TECHNIQUE = 'bounded-exhaustive enumeration of exact two-slope elbows on the real detectors (all fit / cost / refinement options); oracle = the corner index'
LEVEL_TEXT = ('Model checking of the detectors on the elbow family: complete products of arm lengths, spacing patterns (bounded deviations), slope pairs and offsets; '
              'every detector option must return exactly the corner; refinement loops run under the step monitor.')
LEVEL_NOTE = 'Arm length and spacing-deviation bounds are stated in the evidence; unbounded arm lengths are not covered.'

S9 = (0.0, 0.125, -0.125, 1.0, -1.0, 8.0, -8.0, 0.375, -0.625)
PAIRS72 = [(a, b) for a in S9 for b in S9 if a != b]
PAIRS12 = [(-8.0, -1.0), (-1.0, -8.0), (-1.0, -0.125), (-0.125, -1.0), (0.0, 1.0), (1.0, 0.0), (1.0, 8.0), (8.0, 1.0),
           (-1.0, 1.0), (1.0, -1.0), (0.375, -0.625), (-0.625, 0.375)]
PAIRS24 = PAIRS12 + [(0.0, -0.125), (-0.125, 0.0), (8.0, -8.0), (-8.0, 8.0), (0.125, 0.375), (0.375, 0.125), (-8.0, 0.0), (0.0, 8.0),
                     (1.0, 0.125), (0.125, 1.0), (-0.625, -8.0), (-1.0, 0.375)]
GENTLE = [(j / 8.0, (j + d) / 8.0) for j in range(-64, 65) for d in (-1, 1) if -64 <= j + d <= 64]
ALLPAIRS = None
OFFSETS3 = [(0.0, 0.0), (1.0, 0.125), (4096.0, 4096.0)]
OFFSETS1 = [(0.0, 0.0)]


def all_pairs():
    global ALLPAIRS
    if ALLPAIRS is None:
        sl = [j / 8.0 for j in range(-64, 65)]
        ALLPAIRS = [(a, b) for a in sl for b in sl if a != b]
    return ALLPAIRS


def patterns(L, mode):
    """Spacing patterns of length L."""
    G = (1, 2, 3, 4)
    if mode == 'all':
        return list(itertools.product(G, repeat=L))
    if isinstance(mode, tuple) and mode[0] == 'twolevel':
        a = mode[1]
        return [tuple([g1] * a + [g2] * (L - a)) for g1 in G for g2 in G]
    out = []
    for base in G:
        u = [base] * L
        out.append(tuple(u))
        if mode == 'uniform':
            continue
        pos = range(L) if mode == 'dev1' else sorted(set([0, L // 2 - 1 if L > 2 else 0, L // 2, L - 1]))
        for i in pos:
            for g in G:
                if g != base:
                    v = list(u)
                    v[i] = g
                    out.append(tuple(v))
    return sorted(set(out))


SPACES = {
    # name: (arms, pattern mode, slope pairs, offsets)
    'q33': ([(3, 3)], 'all', 'P12', OFFSETS1),
    'qsmall': ([(a, b) for a in (3, 4, 5) for b in (3, 4, 5) if (a, b) != (3, 3)], 'dev1', 'P12', OFFSETS3),
    'qslopes': ([(a, b) for a in (3, 4, 5) for b in (3, 4, 5)], 'uniform', 'P72', OFFSETS1),
    'qtwolevel': ([(3, 3), (4, 4), (3, 5), (5, 3)], 'twolevel', 'GENTLE+P72', OFFSETS1),
    'ttwolevel': ([(a, b) for a in (3, 4, 5, 6, 8) for b in (3, 4, 5, 6, 8)], 'twolevel', 'GENTLE+P72', OFFSETS3),
    'qlong': ([(a, b) for a in (3, 6, 9, 12) for b in (3, 6, 9, 12) if max(a, b) > 5], 'devcorner', 'P12', OFFSETS1),
    't33': ([(3, 3)], 'all', 'P72', OFFSETS1),
    'tall': ([(3, 3), (4, 4), (3, 5), (5, 3)], 'uniform', 'ALL', OFFSETS1),
    'tsmall': ([(a, b) for a in (3, 4, 5, 6) for b in (3, 4, 5, 6)], 'dev1', 'P72', OFFSETS3),
    'tlong': ([(a, b) for a in (3, 6, 9, 12, 15) for b in (3, 6, 9, 12, 15) if max(a, b) > 6], 'devcorner', 'P24', OFFSETS1),
}


def pairs_of(name, seed_pair=None):
    if name == 'GENTLE+P72':
        return GENTLE + PAIRS72
    return {'P12': PAIRS12, 'P24': PAIRS24, 'P72': PAIRS72, 'ALL': all_pairs()}[name]


def units(tier, seed):
    plan = [('q33', 48), ('qsmall', 96), ('qslopes', 24), ('qlong', 96), ('qtwolevel', 48)] if tier == 'quick' else [('t33', 128), ('tall', 256), ('tsmall', 512), ('tlong', 256), ('ttwolevel', 512)]
    u = [('elbows', name, k, K) for name, K in plan for k in range(K)]
    # seed-selected bonus: one extra slope pair and offset on the small arms
    sl = [j / 8.0 for j in range(-64, 65)]
    s1 = sl[(seed * 37 + 5) % len(sl)]
    s2 = sl[(seed * 53 + 71) % len(sl)]
    if s1 == s2:
        s2 = sl[(sl.index(s2) + 1) % len(sl)]
    for k in range(8):
        u.append(('bonus', (s1, s2), k, 8))
    return u


def WARM():
    monitor.install()


def elbow(a, b, gaps, s1, s2, x0, y0):
    xs = [x0]
    ys = [y0]
    for i, g in enumerate(gaps):
        xs.append(xs[-1] + g)
        ys.append(ys[-1] + (s1 if i < a else s2) * g)
    return xs, ys


DETECTORS = [
    ('curvature.knee', lambda p: curvature.knee(p)),
    ('dfdt.knee', lambda p: dfdt.knee(p)),
    ('menger.knee', lambda p: menger.knee(p)),
]
for _fit in (lmethod.Fit.point_fit, lmethod.Fit.best_fit):
    for _it in (lmethod.Refinement.none, lmethod.Refinement.original, lmethod.Refinement.adjusted):
        DETECTORS.append(('lmethod.knee[%s,%s]' % (_fit.value, _it.value), (lambda f, i: (lambda p: lmethod.knee(p, f, i)))(_fit, _it)))
    DETECTORS.append(('lmethod.get_knee[%s,rss]' % _fit.value, (lambda f: (lambda p: lmethod.get_knee(p[:, 0], p[:, 1], f, lmethod.Cost.rss)[0]))(_fit)))
    DETECTORS.append(('lmethod.get_knee[%s,rmse]' % _fit.value, (lambda f: (lambda p: lmethod.get_knee(p[:, 0], p[:, 1], f, lmethod.Cost.rmse)[0]))(_fit)))
KNEEDLE = ('kneedle.knee[t=0]', lambda p: kneedle.knee(p, 0))
DET = dict(DETECTORS + [KNEEDLE])


def check_detector(name, xs, ys, corner):
    n = len(xs)
    pts = curves.points(xs, ys)
    case = {'oracle': 'elbow', 'detector': name, 'x': list(xs), 'y': list(ys), 'corner': corner}
    key = '%s %s corner=%d' % (name, lib.pts_key(xs, ys), corner)
    fn = name.split('[')[0]
    st, v, _ = lib.guarded(4 * n + 8, DET[name], pts)
    if st == 'hang':
        return [Failure(fn, 'non-termination', key, case, str(v), (n, 0))]
    if st == 'raise':
        return [Failure(fn, lib.exc_kind(v), key, case, repr(v), (n, 0))]
    try:
        got = None if v is None else int(v)
    except Exception:  # noqa: BLE001
        got = repr(v)
    if got != corner:
        return [Failure(fn, 'misses-the-corner', key, case, 'returned %s, corner is %d' % (got, corner), (n, 0))]
    return []


def run_elbow(xs, ys, a, s1, s2, res):
    dets = DETECTORS + ([KNEEDLE] if s1 * s2 >= 0 else [])
    for name, _ in dets:
        fs = check_detector(name, xs, ys, a)
        res.count('evaluations')
        res.count('nontrivial')
        res.count('states')
        res.count('transitions')
        for f in fs:
            res.fail(f)
        if not fs:
            res.count('traces')


def run_unit(unit, res):
    if unit[0] == 'bonus':
        _, (s1, s2), k, K = unit
        cnt = 0
        for a in (3, 4, 5):
            for b in (3, 4, 5):
                for gaps in patterns(a + b, 'dev1'):
                    cnt += 1
                    if cnt % K != k:
                        continue
                    for sa, sb in ((s1, s2), (s2, s1)):
                        xs, ys = elbow(a, b, gaps, sa, sb, 0.0, 0.0)
                        run_elbow(xs, ys, a, sa, sb, res)
        return
    _, name, k, K = unit
    arms, mode, pname, offs = SPACES[name]
    prs = pairs_of(pname)
    cnt = 0
    maxarm = 0
    for a, b in arms:
        pats = patterns(a + b, ('twolevel', a) if mode == 'twolevel' else mode)
        for gaps in pats:
            for (s1, s2) in prs:
                for (x0, y0) in offs:
                    cnt += 1
                    if cnt % K != k:
                        continue
                    xs, ys = elbow(a, b, gaps, s1, s2, x0, y0)
                    run_elbow(xs, ys, a, s1, s2, res)
                    maxarm = max(maxarm, a, b)
                    if cnt == K + k and a + b >= 7:
                        res.sample({'space': name, 'arms': [a, b], 'gaps': list(gaps), 'slopes': [s1, s2], 'x': xs, 'y': ys, 'corner': a,
                                    'detectors': [d[0] for d in DETECTORS] + ['kneedle.knee[t=0] (monotone only)']})
    res.notes['largest_arm_completed_' + name] = maxarm


def replay(case):
    return check_detector(case['detector'], case['x'], case['y'], case['corner'])
