"""C12 - cluster filtering keeps one best-ranked knee per cluster.

Every small curve x EVERY interior knee subset (>= 2 knees) x 4 linkages x thresholds x 4 ranking modes
(+ the corner variant); the `clustering` argument is a callable seam, so additionally EVERY contiguous
labelling of the knees (2^(k-1)) is fed through a scripted clustering function.  Scores are recomputed
independently (exact Pearson r^2 of the stated sub-ranges x relative height; brute-force lower hull).
"""
import itertools
from fractions import Fraction

import numpy as np

from mc import core, lib, curves
from mc.core import Failure
import kneeliverse.postprocessing as pp
import kneeliverse.knee_ranking as kr
import kneeliverse.clustering as clustering

ID = 'C12'
TITLE = 'Cluster filtering keeps one best-ranked knee per cluster'
RULE = ('cases = (curve, interior knee subset, clustering (linkage+threshold or scripted labelling), ranking mode); non-trivial = at least one cluster with >= 2 members '
        'whose scores are defined and not all equal (a real choice had to be made)')
ASSUMPTIONS = ['clusters are whatever the supplied clustering callable returns (the real linkages are C11\'s)',
               'a cluster whose score vector contains an undefined correlation (constant run of >= 3 points) is skipped',
               'score ties (relative 1e-9) may be resolved either way', 'knees are interior indices (1..n-2), as stated']
BOUNDS = {'quick': {'curves': 'G12Y013 n=5 complete, Y013 n=6 and A1 n=6 complete', 'knee sets': 'all interior subsets with >=2 members', 'clustering': '4 linkages x t in {0.2,0.5,0.75,1.0} + all 2^(k-1) contiguous labellings', 'deep': 'Y013 n=8, knee sets with >=5 knees, every labelling into 2-3 clusters, hull + linear modes'},
          'thorough': {'curves': 'A12 n=5, A1 n=6, Y013 n=7', 'knee sets': 'all', 'clustering': 'same', 'deep': 'Y013 n=8,9 and G12Y013 n=7'}}
TECHNIQUE = 'bounded-exhaustive enumeration of curves x all knee subsets x clusterings (real linkages and every scripted contiguous labelling) on the real filters; independent exact score recomputation'
LEVEL_TEXT = ('Model checking: all interior knee subsets of every small curve, every linkage/threshold and - through the callable seam - every contiguous labelling; exactly one '
              'best-scoring member per cluster (left/linear/right), hull-mode representation rule against a brute-force hull, and the corner-triangle rule.')
LEVEL_NOTE = 'Bounded by n and alphabet; correlation-undefined clusters are outside the model.'

LINKS = {'single': clustering.single_linkage, 'complete': clustering.complete_linkage, 'centroid': clustering.centroid_linkage, 'average': clustering.average_linkage}
TS = (0.2, 0.5, 0.75, 1.0)
METHODS = {'left': kr.ClusterRanking.left, 'linear': kr.ClusterRanking.linear, 'right': kr.ClusterRanking.right, 'hull': kr.ClusterRanking.hull}


def units(tier, seed):
    plan = [('G12Y013', 5, 64), ('Y013', 6, 48), ('A1', 6, 128)] if tier == 'quick' else [('A12', 5, 256), ('A1', 6, 128), ('Y013', 7, 128)]
    b = curves.bonus(seed, curves.Y013)
    plan.append((b.name, 5, 8))
    u = [(prof, n, k, K, 'all') for prof, n, K in plan for k in range(K)]
    # deep units: many knees in several clusters (cursor / bookkeeping bugs across clusters need >= 5 knees)
    deep = [('Y013', 8, 96)] if tier == 'quick' else [('Y013', 8, 96), ('Y013', 9, 256), ('G12Y013', 7, 256)]
    u += [(prof, n, k, K, 'deep') for prof, n, K in deep for k in range(K)]
    return u


def r2_exact(xs, ys, a, b):
    """lf.r2 semantics on points a..b-1 (python slice a:b): <= 2 points -> 1; undefined correlation -> None."""
    X = [Fraction(v) for v in xs[a:b]]
    Y = [Fraction(v) for v in ys[a:b]]
    if len(X) <= 2:
        return Fraction(1)
    n = len(X)
    mx, my = sum(X) / n, sum(Y) / n
    sxx = sum((x - mx) ** 2 for x in X)
    syy = sum((y - my) ** 2 for y in Y)
    if sxx == 0 or syy == 0:
        return None
    sxy = sum((x - mx) * (y - my) for x, y in zip(X, Y))
    return sxy * sxy / (sxx * syy)


def scores(xs, ys, cl, mode):
    """fit x relative height for every member of the cluster (None if undefined)."""
    j, last = cl[0], cl[-1]
    peak = max(Fraction(ys[k]) for k in cl)
    w = [abs(peak - Fraction(ys[k])) for k in cl]
    sw = sum(w)
    if sw != 0:
        w = [v / sw for v in w]
    out = []
    for k, wk in zip(cl, w):
        rl = r2_exact(xs, ys, j, k + 1)
        rr = r2_exact(xs, ys, k, last)
        if mode == 'left':
            fit = rl
        elif mode == 'right':
            fit = rr
        else:
            fit = None if (rl is None or rr is None) else (rl + rr) / 2
        if fit is None:
            return None
        out.append(fit * wk)
    return out


def lower_hull(xs, ys):
    n = len(xs)
    P = [(Fraction(x), Fraction(y)) for x, y in zip(xs, ys)]
    H = [0]
    for i in range(1, n - 1):
        ok = True
        for a in range(i):
            for b in range(i + 1, n):
                o = (P[b][0] - P[a][0]) * (P[i][1] - P[a][1]) - (P[i][0] - P[a][0]) * (P[b][1] - P[a][1])
                if o >= 0:
                    ok = False
                    break
            if not ok:
                break
        if ok:
            H.append(i)
    H.append(n - 1)
    return H


def clusters_of(knees, labels):
    out = {}
    for k, l in zip(knees, labels):
        out.setdefault(int(l), []).append(k)
    return [out[l] for l in sorted(out)]


def check_filter(xs, ys, knees, cl_desc, mode, hull=None):
    """cl_desc = ('link', name, t) or ('script', labels)."""
    n = len(xs)
    pts = curves.points(xs, ys)
    Ka = np.array(knees, dtype=int)
    case = {'oracle': 'filter', 'x': list(xs), 'y': list(ys), 'knees': list(knees), 'clustering': list(cl_desc), 'mode': mode}
    key = 'filter_clusters[%s] %s knees=%s clustering=%s' % (mode, lib.pts_key(xs, ys), list(knees), list(cl_desc))
    fn = 'postprocessing.filter_clusters' if mode != 'corner' else 'postprocessing.filter_clusters_corners'
    if cl_desc[0] == 'link':
        cf, t = LINKS[cl_desc[1]], cl_desc[2]
    else:
        lab = np.array(cl_desc[1], dtype=int)
        cf, t = (lambda kp, tt: lab.copy()), 0.5
    try:
        labels = np.asarray(cf(pts[Ka], t)).tolist()
    except Exception:  # noqa: BLE001
        return None, [], False
    cls = clusters_of(knees, labels)
    try:
        if mode == 'corner':
            got = pp.filter_clusters_corners(pts, Ka, cf, t)
        else:
            got = pp.filter_clusters(pts, Ka, cf, t, METHODS[mode])
        got = [int(g) for g in np.asarray(got).tolist()]
    except Exception as e:  # noqa: BLE001
        return None, [Failure(fn, lib.exc_kind(e), key, case, repr(e), (n, len(knees)))], False
    if got != sorted(set(got)) or any(g not in knees for g in got):
        return got, [Failure(fn, 'not-a-strictly-increasing-subset', key, case, 'returned %s from knees %s' % (got, list(knees)), (n, len(knees)))], False
    nontriv = False
    for cl in cls:
        mine = [g for g in got if g in cl]
        if mode == 'hull':
            H = hull if hull is not None else lower_hull(xs, ys)
            if len(mine) > 1:
                return got, [Failure(fn, 'more-than-one-member-of-a-cluster', key, case, 'cluster %s kept %s' % (cl, mine), (n, len(knees)))], nontriv
            if not any(cl[0] <= h <= cl[-1] for h in H) and mine:
                return got, [Failure(fn, 'kept-a-knee-of-a-cluster-without-hull-point', key, case, 'cluster %s kept %s, lower hull %s' % (cl, mine, H), (n, len(knees)))], nontriv
            if len(cl) > 1:
                nontriv = True
            continue
        if len(mine) != 1:
            return got, [Failure(fn, 'not-exactly-one-member-per-cluster', key, case, 'cluster %s kept %s (result %s)' % (cl, mine, got), (n, len(knees)))], nontriv
        if len(cl) < 2:
            continue
        if mode == 'corner':
            sc = [Fraction(1, 2) * (Fraction(xs[k]) - Fraction(xs[k - 1])) * (Fraction(ys[k]) - Fraction(ys[k + 1])) for k in cl]
        else:
            sc = scores(xs, ys, cl, mode)
            if sc is None:
                continue                       # undefined correlation: outside the model
        mxs = max(sc)
        if len(set(sc)) > 1:
            nontriv = True
        chosen = sc[cl.index(mine[0])]
        if float(chosen) < float(mxs) - 1e-9 * max(1.0, abs(float(mxs))):
            return got, [Failure(fn, 'kept-knee-is-not-the-best-ranked', key, case, 'cluster %s scores %s kept %d' % (cl, [float(s) for s in sc], mine[0]), (n, len(knees)))], nontriv
    return got, [], nontriv


def labellings(k):
    for bits in itertools.product((0, 1), repeat=k - 1):
        lab = [0]
        for b in bits:
            lab.append(lab[-1] + b)
        yield lab


def run_unit(unit, res):
    prof, n, k, K, kind = unit
    P = curves.get(prof)
    interior = list(range(1, n - 1))
    ksets = [list(c) for r in range(2, len(interior) + 1) for c in itertools.combinations(interior, r)]
    if kind == 'deep':
        ksets = [ks for ks in ksets if len(ks) >= 5]
    first = True
    for i, xs, ys in P.shard(n, k, K):
        H = lower_hull(xs, ys)
        for knees in ksets:
            descs = [('link', ln, t) for ln in LINKS for t in TS] + [('script', lab) for lab in labellings(len(knees))]
            if kind == 'deep':
                descs = [('script', lab) for lab in labellings(len(knees)) if 2 <= lab[-1] + 1 <= 3]
            for d in descs:
                for mode in (('left', 'linear', 'right', 'hull', 'corner') if kind == 'all' else ('hull', 'linear')):
                    got, fs, nt = check_filter(xs, ys, knees, d, mode, H)
                    res.count('evaluations')
                    res.count('states')
                    res.count('transitions', len(knees))
                    for f in fs:
                        res.fail(f)
                    if got is not None and not fs:
                        res.count('traces')
                    if nt:
                        res.count('nontrivial')
                    if d[0] == 'script':
                        res.count('scripted_labellings')
        if first and ksets:
            first = False
            res.sample({'profile': prof, 'x': xs, 'y': ys, 'knee_sets': len(ksets), 'lower_hull': H, 'example': {'knees': ksets[-1], 'scripted_labellings': 2 ** (len(ksets[-1]) - 1)}})
    res.notes['n_max_' + prof.split('+')[0]] = n


def replay(case):
    d = case['clustering']
    d = tuple(d) if d[0] == 'link' else ('script', list(d[1]))
    _, fs, _ = check_filter(case['x'], case['y'], case['knees'], d, case['mode'])
    return fs
