"""C10 - Z-method knees are valid, height-ordered and mutually separated.

All miss-ratio-like curves (integer x, y in {0, 1/4, 1/2, 1}) up to the bound x (dx, dy, dz) x optional
x_max / y_range overrides on the real code, main loop under the step monitor with the budget stated in
the property (ceil((3 - min z)/dz) + n + 3 iterations).
"""
import math
import numpy as np

from mc import core, lib, curves, monitor
from mc.core import Failure
import kneeliverse.zmethod as zmethod
import uts.gradient as grad
import uts.zscore as uzscore

ID = 'C10'
TITLE = 'Z-method knees are valid, height-ordered and mutually separated'
RULE = 'cases = (curve, dx, dy, dz, x_max, y_range), full product below the bound; non-trivial = at least two knees reported (ordering and separation clauses bite)'
ASSUMPTIONS = ['uts.gradient.csd / uts.zscore.zscore_array trusted (used only to compute the iteration budget from min z)',
               'y separation compared with an absolute slack of 1e-12']
BOUNDS = {'quick': {'M (x0=1, gaps {1,2}, y in {0,1/4,1/2,1})': 'n=4,5 complete; n=6 unit gaps', 'parameters': '4 (dx,dy,dz) x x_max {None,3n} x y_range {None,[1,0],[2,0]}', 'also': 'M with x0=1000 (n=5); every window of 10 points of usr0.csv[::64] and of 12 points of usr0.csv[::8][:400]'},
          'thorough': {'M': 'n=4..6 complete; n=7 unit gaps', 'parameters': 'same'}}
TECHNIQUE = 'bounded-exhaustive enumeration of miss-ratio curves and parameters on the real Z-method under a step monitor; pairwise separation / ordering invariants'
LEVEL_TEXT = ('Model checking: every curve of the miss-ratio alphabet up to the bound, every parameter combination; termination within the stated iteration bound, index validity, '
              'height order and pairwise x / y separation checked on every execution.')
LEVEL_NOTE = 'Bounded by n and the 4-letter y alphabet.'

PARAMS = [(0.05, 0.05, 0.5), (0.5, 0.25, 1.0), (0.2, 0.5, 0.3), (0.05, 0.05, 0.05)]
M1 = curves.register(curves.M.restrict('M1', gaps=(1,)))


def units(tier, seed):
    plan = [('M', 4, 4), ('M', 5, 48), ('M1', 6, 16)] if tier == 'quick' else [('M', 4, 2), ('M', 5, 16), ('M', 6, 320), ('M1', 7, 64)]
    extra = [(0.3, 0.1, 0.7), (0.1, 0.3, 0.2), (0.25, 0.25, 0.25), (0.4, 0.05, 1.5), (0.05, 0.4, 0.4), (0.15, 0.15, 0.9)][seed % 6]
    plan += [('Tusr0s64', 10, 16), ('Tusr0s8', 12, 48)] if tier == 'quick' else [('Tusr0s64', 10, 16), ('Tusr0s64', 24, 16), ('Tusr0s8', 12, 48), ('Tusr0s8', 40, 48)]
    plan.append((curves.register(curves.M.restrict('Mbig', x0s=(1000,))).name, 5, 48))
    return [(prof, n, k, K, extra) for prof, n, K in plan for k in range(K)]


def WARM():
    monitor.install()


def budget(xs, ys, dz):
    n = len(xs)
    try:
        x = np.array(xs, dtype=float)
        y = np.array(ys, dtype=float)
        z = uzscore.zscore_array(x, grad.csd(x, y))
        mz = float(np.min(z))
        if mz != mz:
            mz = 0.0
    except Exception:  # noqa: BLE001
        mz = -10.0
    return int(math.ceil((3.0 - min(mz, 3.0)) / dz)) + n + 3


def check_call(xs, ys, dx, dy, dz, x_max, y_range):
    n = len(xs)
    pts = curves.points(xs, ys)
    case = {'oracle': 'z', 'x': list(xs), 'y': list(ys), 'dx': dx, 'dy': dy, 'dz': dz, 'x_max': x_max, 'y_range': y_range}
    key = 'zmethod.knees %s dx=%r dy=%r dz=%r x_max=%r y_range=%r' % (lib.pts_key(xs, ys), dx, dy, dz, x_max, y_range)
    fn = 'zmethod.knees'
    B = budget(xs, ys, dz)
    st, v, mx = lib.guarded(B, zmethod.knees, pts, dx, dy, dz, x_max, list(y_range) if y_range else None)
    if st == 'hang':
        return None, [Failure(fn, 'non-termination', key, case, 'more than %d iterations (%s)' % (B, v), (n, 0))], 0
    if st == 'raise':
        return None, [Failure(fn, lib.exc_kind(v), key, case, repr(v), (n, 0))], 0
    got = np.asarray(v).tolist()
    if any(float(g) != int(g) or not (0 <= g < n) for g in got):
        return None, [Failure(fn, 'invalid-index', key, case, 'returned %s' % got, (n, 0))], mx
    got = [int(g) for g in got]
    if got != sorted(set(got)):
        return got, [Failure(fn, 'not-strictly-increasing', key, case, 'returned %s' % got, (n, 0))], mx
    h = [ys[g] for g in got]
    if any(b > a for a, b in zip(h, h[1:])):
        return got, [Failure(fn, 'heights-increase-left-to-right', key, case, 'knees %s heights %s' % (got, h), (n, 0))], mx
    xm = x_max if x_max else n
    w = max(1, int(xm * dx))
    if y_range:
        ymax, ymin = y_range
    else:
        ymax, ymin = max(ys), min(ys)
    hh = (ymax - ymin) * dy
    for i in range(len(got)):
        for j in range(i + 1, len(got)):
            a, b = got[i], got[j]
            if abs(xs[a] - xs[b]) < w:
                return got, [Failure(fn, 'knees-closer-than-x-width', key, case, 'knees %s: x=%s,%s width=%d' % (got, xs[a], xs[b], w), (n, 0))], mx
            if abs(ys[a] - ys[b]) < hh - 1e-12:
                return got, [Failure(fn, 'knees-closer-than-y-height', key, case, 'knees %s: y=%s,%s height=%r' % (got, ys[a], ys[b], hh), (n, 0))], mx
    return got, [], mx


def run_unit(unit, res):
    prof, n, k, K, extra = unit
    P = curves.get(prof)
    first = True
    for i, xs, ys in P.shard(n, k, K):
        for (dx, dy, dz) in PARAMS + [extra]:
            for x_max in (None, 3 * n):
                for y_range in (None, (1, 0), (2, 0)):
                    got, fs, mx = check_call(xs, ys, dx, dy, dz, x_max, y_range)
                    res.count('evaluations')
                    res.count('states', mx + 1)
                    res.count('transitions', max(mx, 1))
                    for f in fs:
                        res.fail(f)
                    if not fs:
                        res.count('traces')
                    if got is not None and len(got) >= 2:
                        res.count('nontrivial')
                    res.maxi('max_main_loop_iterations', mx)
        if first:
            first = False
            res.sample({'profile': prof, 'x': xs, 'y': ys, 'params': PARAMS, 'overrides': {'x_max': [None, 3 * n], 'y_range': [None, [1, 0], [2, 0]]}})
    res.notes['n_max_' + prof] = n


def replay(case):
    yr = tuple(case['y_range']) if case['y_range'] else None
    _, fs, _ = check_call(case['x'], case['y'], case['dx'], case['dy'], case['dz'], case['x_max'], yr)
    return fs
