"""C09 - each single-knee detector returns the interior optimum of its stated criterion.

Every curve of the alphabets up to the bound; each criterion is recomputed independently (three-point
Lagrange derivatives and Menger curvature in exact rational arithmetic, two-line residuals in exact
rational arithmetic, the documented DFDT loop with every tie choice explored).  The returned index must be
interior and within tolerance of the optimum (any optimiser accepted); refinement loops run under the
step monitor.
"""
import math
import itertools
from fractions import Fraction

import numpy as np

from mc import core, lib, curves, monitor
from mc.core import Failure
import kneeliverse.curvature as curvature
import kneeliverse.dfdt as dfdt
import kneeliverse.menger as menger
import kneeliverse.lmethod as lmethod
import uts.thresholding as thresh

ID = 'C09'
TITLE = 'Each single-knee detector returns the interior optimum of its stated criterion'
RULE = ('cases = (curve, detector configuration), full product below the bound; non-trivial = the criterion is not constant over the interior '
        'candidates (there is a real optimum to find)')
ASSUMPTIONS = ['curvature: an index is accepted if its criterion is maximal within the floating-point evaluation noise of the second derivative (16 eps max|y| / gap^2)', 'uts.thresholding.isodata is trusted as the dependency\'s definition of the ISODATA threshold',
               'an index whose criterion is within 1e-9 relative (+ noise floor) of the optimum is accepted (ties, rounding)',
               'Menger on exactly collinear curves (all curvatures zero) is undefined and skipped',
               'L-method: n >= 5; refinement limit in {4,5,10}']
BOUNDS = {'quick': {'curvature/DFDT/Menger': 'A n=3..5 complete, A12 n=6, A1 n=7, C n<=5, G12Y013 n=5 re-embedded, trace windows (w=10,12)', 'L-method': 'A12 n=5, A1 n=6,7, Y013 n=8; 2 fits x 2 costs; 2 fits x 3 refinements x limit {4,5,10}; get_knee also with x+2^31 and x-2^28 on A1 n=6, G12Y013 n=5'},
          'thorough': {'curvature/DFDT/Menger': 'A n<=6 complete, A12 n=7, A1 n=8', 'L-method': 'A12 n=5,6, A1 n=7,8, Y013 n=9'}}
TECHNIQUE = 'bounded-exhaustive enumeration of curves on the real detectors; optimum of each criterion recomputed in exact rational arithmetic; loops under a step monitor'
LEVEL_TEXT = ('Model checking: every curve of the alphabets up to the bound through every detector option; the returned index must be an interior optimiser of an '
              'independently recomputed criterion, and every refinement loop must finish within 4n+8 iterations.')
LEVEL_NOTE = 'Bounded by n and alphabets; ISODATA trusted.'


def units(tier, seed):
    if tier == 'quick':
        basic = [('A', 3, 1), ('A', 4, 8), ('A', 5, 64), ('A12', 6, 32), ('A1', 7, 8), ('C', 4, 2), ('C', 5, 8)]
        lm = [('A12', 5, 32), ('A1', 6, 16), ('A1', 7, 64), ('Y013', 8, 32)]
    else:
        basic = [('A', 3, 1), ('A', 4, 8), ('A', 5, 32), ('A', 6, 512), ('A12', 7, 256), ('A1', 8, 32), ('C', 5, 8), ('C', 6, 64)]
        lm = [('A12', 5, 16), ('A12', 6, 256), ('A1', 7, 32), ('A1', 8, 128), ('Y013', 9, 96)]
    basic += [('Tweb0r', 10, 8), ('Tusr0s64', 12, 16)] if tier == 'quick' else [('Tweb0r', 10, 8), ('Tweb0r', 24, 8), ('Tusr0s64', 12, 16), ('Tusr0s64', 32, 16)]
    lm += [('Tweb0r', 12, 8), ('Tusr0s64', 14, 16)] if tier == 'quick' else [('Tweb0r', 12, 8), ('Tweb0r', 24, 8), ('Tusr0s64', 14, 16), ('Tusr0s64', 30, 16)]
    for p in curves.tiny_family(curves.G12Y013):
        basic.append((p.name, 5, 16))
    b = curves.bonus(seed)
    basic.append((b.name, 4, 8))
    u = [('basic', prof, n, k, K) for prof, n, K in basic for k in range(K)]
    u += [('lm', prof, n, k, K) for prof, n, K in lm for k in range(K)]
    # large x offsets (timestamps): exposes numerically naive fitting code; exact reference, looser tolerance
    off = [('A1', 6, 16), ('G12Y013', 5, 16)] if tier == 'quick' else [('A1', 6, 16), ('A1', 7, 64), ('G12Y013', 6, 128)]
    u += [('lmoff', prof, n, k, K) for prof, n, K in off for k in range(K)]
    return u


def WARM():
    monitor.install()


# ------------------------------------------------------------------------------------------------
# exact criteria

def lagrange(xs, ys, i):
    """(f', f'') at interior point i from the parabola through i-1, i, i+1 (exact)."""
    x0, x1, x2 = Fraction(xs[i - 1]), Fraction(xs[i]), Fraction(xs[i + 1])
    y0, y1, y2 = Fraction(ys[i - 1]), Fraction(ys[i]), Fraction(ys[i + 1])
    d1 = y0 * (x1 - x2) / ((x0 - x1) * (x0 - x2)) + y1 * (2 * x1 - x0 - x2) / ((x1 - x0) * (x1 - x2)) + y2 * (x1 - x0) / ((x2 - x0) * (x2 - x1))
    d2 = 2 * (y0 / ((x0 - x1) * (x0 - x2)) + y1 / ((x1 - x0) * (x1 - x2)) + y2 / ((x2 - x0) * (x2 - x1)))
    return d1, d2


def curvature_sq(xs, ys, i):
    d1, d2 = lagrange(xs, ys, i)
    return d2 * d2 / (1 + d1 * d1) ** 3


def menger_sq(xs, ys, i):
    f = (Fraction(xs[i]), Fraction(ys[i]))
    g = (Fraction(xs[i - 1]), Fraction(ys[i - 1]))
    h = (Fraction(xs[i + 1]), Fraction(ys[i + 1]))
    cr = (g[0] - f[0]) * (h[1] - f[1]) - (g[1] - f[1]) * (h[0] - f[0])
    def d2(u, v):
        return (u[0] - v[0]) ** 2 + (u[1] - v[1]) ** 2
    return 4 * cr * cr / (d2(f, g) * d2(g, h) * d2(h, f))


def gradient_float(xs, ys):
    """Three-point Lagrange first derivative at every point (forward / backward parabola at the ends)."""
    n = len(xs)
    g = []
    def lag(x, x0, x1, x2, y0, y1, y2):
        return (y0 * (2 * x - x1 - x2) / ((x0 - x1) * (x0 - x2)) + y1 * (2 * x - x0 - x2) / ((x1 - x0) * (x1 - x2))
                + y2 * (2 * x - x0 - x1) / ((x2 - x0) * (x2 - x1)))
    X = [float(v) for v in xs]
    Y = [float(v) for v in ys]
    g.append(lag(X[0], X[0], X[1], X[2], Y[0], Y[1], Y[2]))
    for i in range(1, n - 1):
        g.append(lag(X[i], X[i - 1], X[i], X[i + 1], Y[i - 1], Y[i], Y[i + 1]))
    g.append(lag(X[-1], X[-3], X[-2], X[-1], Y[-3], Y[-2], Y[-1]))
    return g


def isodata_set(values, scale):
    """Admissible ISODATA thresholds of a sample: fixed points of T -> (mean(low) + mean(high)) / 2 reached from
    the sample mean.  The statement does not fix on which side a value EQUAL to the running threshold falls, nor
    when the iteration is cut off, so both sides are explored at every exact boundary tie and both the
    dependency's cut-off (|dT| < 1e-6) and the exact fixed point are admissible.  The dependency's own answer is
    always a member (asserted)."""
    vals = [float(v) for v in values]
    out = set()
    seen = set()
    stack = [(math.fsum(vals) / len(vals), 0)]
    while stack:
        t, it = stack.pop()
        if (t, it) in seen or it > 100:
            out.add(t)
            continue
        seen.add((t, it))
        tie = [v for v in vals if abs(v - t) <= 1e-12 * scale]
        splits = [([v for v in vals if v <= t], [v for v in vals if v > t])]
        if tie:
            splits.append(([v for v in vals if v < t and v not in tie], [v for v in vals if v >= t or v in tie]))
            splits.append(([v for v in vals if v <= t or v in tie], [v for v in vals if v > t and v not in tie]))
        for lo, hi in splits:
            if not lo or not hi:
                out.add(t)
                continue
            nt = (math.fsum(lo) / len(lo) + math.fsum(hi) / len(hi)) / 2.0
            if abs(nt - t) < 1e-6:
                out.add(nt)                       # the dependency stops here
            if nt == t or abs(nt - t) <= 1e-15 * scale:
                out.add(nt)
            else:
                stack.append((nt, it + 1))
    return out


def dfdt_admissible(xs, ys):
    """All knees the documented DFDT loop can return when near-ties are broken either way."""
    n = len(xs)
    g = gradient_float(xs, ys)
    # RELATIVE to the gradients themselves (an absolute floor of 1.0 made every index admissible on the tiny re-embeddings,
    # where all gradients are ~2^-34: seeded change C09f)
    scale = max(abs(v) for v in g) or 1.0
    out = set()
    seen = set()
    stack = [(0, 0, -1)]
    while stack:
        knee, cutoff, last = stack.pop()
        if (knee, cutoff, last) in seen:
            continue
        seen.add((knee, cutoff, last))
        if not (last < knee and (n - cutoff) > 2):
            out.add(knee)
            continue
        sl = g[cutoff:]
        Ts = isodata_set(sl, scale)
        Ts.add(float(thresh.isodata(np.array(sl))))
        for T in Ts:
            diff = [abs(v - T) for v in sl]
            inner = diff[1:-1]
            m = min(inner)
            for j, v in enumerate(inner):
                if v <= m + 1e-9 * scale:
                    k2 = j + 1 + cutoff
                    stack.append((k2, int(math.ceil(k2 / 2.0)), knee))
        if len(seen) > 4000:
            return None
    return out


def rss_point(xs, ys, a, b):
    """Exact RSS of the endpoint line on points a..b."""
    X = [Fraction(v) for v in xs[a:b + 1]]
    Y = [Fraction(v) for v in ys[a:b + 1]]
    if X[0] == X[-1]:
        m, c = Fraction(0), Fraction(0)
    else:
        m = (Y[0] - Y[-1]) / (X[0] - X[-1])
        c = Y[0] - m * X[0]
    return sum((y - (m * x + c)) ** 2 for x, y in zip(X, Y))


def rss_best(xs, ys, a, b):
    """Exact RSS of the least-squares line on points a..b."""
    X = [Fraction(v) for v in xs[a:b + 1]]
    Y = [Fraction(v) for v in ys[a:b + 1]]
    n = len(X)
    mx, my = sum(X) / n, sum(Y) / n
    sxx = sum((x - mx) ** 2 for x in X)
    sxy = sum((x - mx) * (y - my) for x, y in zip(X, Y))
    syy = sum((y - my) ** 2 for y in Y)
    if sxx == 0:
        return syy
    return syy - sxy * sxy / sxx


def lm_errors(xs, ys, fit, cost):
    """error(i) for every admissible split i in 2..n-3 (floats from exact RSS)."""
    n = len(xs)
    L = Fraction(xs[-1]) - Fraction(xs[0])
    out = {}
    for i in range(2, max(3, n - 2)):
        if i > n - 1:
            break
        rl = (Fraction(xs[i]) - Fraction(xs[0])) / L
        rr = (Fraction(xs[-1]) - Fraction(xs[i])) / L
        f = rss_point if fit == 'pointfit' else rss_best
        a, b = f(xs, ys, 0, i), f(xs, ys, i, n - 1)
        if cost == 'rmse':
            out[i] = float(rl) * math.sqrt(max(0.0, float(a * rl))) + float(rr) * math.sqrt(max(0.0, float(rr * b)))
        else:
            out[i] = float(a * rl + b * rr)
    return out


FITS = {'pointfit': lmethod.Fit.point_fit, 'bestfit': lmethod.Fit.best_fit}
COSTS = {'rmse': lmethod.Cost.rmse, 'rss': lmethod.Cost.rss}
ITS = {'none': lmethod.Refinement.none, 'original': lmethod.Refinement.original, 'adjusted': lmethod.Refinement.adjusted}


def fail_of(fn, st, v, key, case, n):
    if st == 'hang':
        return Failure(fn, 'non-termination', key, case, str(v), (n, 0))
    return Failure(fn, lib.exc_kind(v), key, case, repr(v), (n, 0))


def check_basic(det, xs, ys):
    """curvature / dfdt / menger on one curve.  Returns (nontrivial, failures, skipped)."""
    n = len(xs)
    pts = curves.points(xs, ys)
    case = {'oracle': 'basic', 'detector': det, 'x': list(xs), 'y': list(ys)}
    key = '%s.knee %s' % (det, lib.pts_key(xs, ys))
    fn = '%s.knee' % det
    f = {'curvature': curvature.knee, 'dfdt': dfdt.knee, 'menger': menger.knee}[det]
    st, v, _ = lib.guarded(4 * n + 8, f, pts)
    if st != 'ok':
        return False, [fail_of(fn, st, v, key, case, n)], False
    try:
        got = int(v)
        if float(v) != got:
            raise ValueError
    except Exception:  # noqa: BLE001
        return False, [Failure(fn, 'not-an-index', key, case, repr(v), (n, 0))], False
    if det in ('curvature', 'menger'):
        crit = {i: (curvature_sq if det == 'curvature' else menger_sq)(xs, ys, i) for i in range(1, n - 1)}
        mx = max(crit.values())
        # (an exactly collinear curve has Menger curvature 0 everywhere: every interior index is a maximiser,
        # and the answer still has to be an interior index)
        if not (1 <= got <= n - 2):
            return False, [Failure(fn, 'not-interior', key, case, 'returned %d for n=%d' % (got, n), (n, 0))], False
        nontriv = len(set(crit.values())) > 1
        if det == 'curvature':
            # interval comparison: the float evaluation of |f''| at point i carries an absolute error of about
            # 16 eps * max|y| / (min gap)^2, which passes through the factor (1+f'^2)^(-3/2) of THAT point.  An index is
            # accepted if its criterion could be the maximum within that noise (huge y scales make flat
            # stretches noisier than the true, tiny curvature of very steep stretches).
            def noise(i):
                ym = max(abs(float(ys[i - 1])), abs(float(ys[i])), abs(float(ys[i + 1])))
                gm = min(float(xs[i]) - float(xs[i - 1]), float(xs[i + 1]) - float(xs[i]))
                d1, _ = lagrange(xs, ys, i)
                return 16 * lib.EPS * ym / (gm * gm) / (1.0 + float(d1) ** 2) ** 1.5
            hi_got = math.sqrt(float(crit[got])) + noise(got)
            lo_best = max(math.sqrt(float(c)) - noise(i) for i, c in crit.items())
            if hi_got >= lo_best * (1 - 1e-9):
                return nontriv, [], False
        if crit[got] < mx * (1 - Fraction(1, 10 ** 9)):
            best = [i for i, c in crit.items() if c == mx]
            return nontriv, [Failure(fn, 'not-the-maximiser', key, case, 'returned %d (criterion^2=%s); maximiser(s) %s (criterion^2=%s)' % (
                got, float(crit[got]), best, float(mx)), (n, 0))], False
        return nontriv, [], False
    adm = dfdt_admissible(xs, ys)
    if not (1 <= got <= n - 2):
        return False, [Failure(fn, 'not-interior', key, case, 'returned %d for n=%d' % (got, n), (n, 0))], False
    if adm is None:
        return False, [], True
    if got not in adm:
        return True, [Failure(fn, 'not-the-documented-dfdt-result', key, case, 'returned %d; the documented loop yields %s' % (got, sorted(adm)), (n, 0))], False
    g = gradient_float(xs, ys)
    return len(set(g[1:-1])) > 1, [], False


def check_lm_getknee(xs, ys, fit, cost, loose=False):
    n = len(xs)
    pts = curves.points(xs, ys)
    case = {'oracle': 'lm_get', 'x': list(xs), 'y': list(ys), 'fit': fit, 'cost': cost, 'loose': loose}
    key = 'lmethod.get_knee[%s,%s] %s' % (fit, cost, lib.pts_key(xs, ys))
    fn = 'lmethod.get_knee'
    st, v, _ = lib.guarded(4 * n + 8, lmethod.get_knee, pts[:, 0].copy(), pts[:, 1].copy(), FITS[fit], COSTS[cost])
    if st != 'ok':
        return False, [fail_of(fn, st, v, key, case, n)]
    got = int(v[0])
    err = lm_errors(xs, ys, fit, cost)
    if got not in err:
        return False, [Failure(fn, 'split-outside-2..n-3', key, case, 'returned %d n=%d' % (got, n), (n, 0))]
    mn = min(err.values())
    scale = max(abs(float(v)) for v in ys) + 1e-300
    tol = 1e-9 * abs(mn) + (1e-7 * scale if cost == 'rmse' else 1e-12 * scale * scale)
    if loose:
        tol = 1e-6 * abs(mn) + (1e-4 * scale if cost == 'rmse' else 1e-6 * scale * scale)
    if err[got] > mn + tol:
        return True, [Failure(fn, 'not-the-minimiser', key, case, 'returned %d (error %r); minimum %r at %s; errors %s' % (
            got, err[got], mn, [i for i, e in err.items() if e == mn], err), (n, 0))]
    return len(set(err.values())) > 1, []


def check_lm_knee(xs, ys, fit, it, limit):
    n = len(xs)
    pts = curves.points(xs, ys)
    case = {'oracle': 'lm_knee', 'x': list(xs), 'y': list(ys), 'fit': fit, 'it': it, 'limit': limit}
    key = 'lmethod.knee[%s,%s,limit=%d] %s' % (fit, it, limit, lib.pts_key(xs, ys))
    fn = 'lmethod.knee'
    st, v, mx = lib.guarded(4 * n + 8, lmethod.knee, pts, FITS[fit], ITS[it], limit)
    if st != 'ok':
        return False, [fail_of(fn, st, v, key, case, n)], 0
    got = int(v)
    if not (2 <= got <= n - 3):
        return False, [Failure(fn, 'not-interior-2..n-3', key, case, 'returned %d n=%d' % (got, n), (n, 0))], mx
    # the answer is the minimiser of the RMSE criterion on SOME prefix the refinement can visit
    ok = False
    lo = min(max(limit, 4), n - 1)
    for c in range(n - 1, lo - 1, -1):
        pre_x, pre_y = xs[:c + 1], ys[:c + 1]
        if len(pre_x) < 5:
            break
        err = lm_errors(pre_x, pre_y, fit, 'rmse')
        if got in err:
            mn = min(err.values())
            scale = max(abs(float(v)) for v in pre_y) + 1e-300
            if err[got] <= mn + 1e-9 * abs(mn) + 1e-7 * scale:
                ok = True
                break
        if it == 'none':
            break
    if not ok:
        return True, [Failure(fn, 'not-a-minimiser-of-any-visited-prefix', key, case, 'returned %d' % got, (n, 0))], mx
    return True, [], mx


LIMITS = (4, 5, 10)


def run_unit(unit, res):
    kind, prof, n, k, K = unit
    P = curves.get(prof)
    first = True
    for i, xs, ys in P.shard(n, k, K):
        if kind == 'lmoff':
            for off in (2.0 ** 31, -(2.0 ** 28)):
                X = [float(v) + off for v in xs]
                for fit in FITS:
                    for cost in COSTS:
                        nt, fs = check_lm_getknee(X, ys, fit, cost, loose=True)
                        res.count('evaluations')
                        res.count('states')
                        res.count('transitions', max(n - 4, 1))
                        res.count('offset_cases')
                        for f in fs:
                            res.fail(f)
                        if not fs:
                            res.count('traces')
                        if nt:
                            res.count('nontrivial')
            continue
        if kind == 'basic':
            for det in ('curvature', 'dfdt', 'menger'):
                nt, fs, skipped = check_basic(det, xs, ys)
                res.count('evaluations')
                res.count('states')
                res.count('transitions')
                for f in fs:
                    res.fail(f)
                if skipped:
                    res.count('undefined_skipped')
                elif not fs:
                    res.count('traces')
                if nt:
                    res.count('nontrivial')
        else:
            for fit in FITS:
                for cost in COSTS:
                    nt, fs = check_lm_getknee(xs, ys, fit, cost)
                    res.count('evaluations')
                    res.count('states')
                    res.count('transitions', max(n - 4, 1))
                    for f in fs:
                        res.fail(f)
                    if not fs:
                        res.count('traces')
                    if nt:
                        res.count('nontrivial')
                for it in ITS:
                    for limit in (LIMITS if it != 'none' else (10,)):
                        nt, fs, mx = check_lm_knee(xs, ys, fit, it, limit)
                        res.count('evaluations')
                        res.count('states', mx + 1)
                        res.count('transitions', max(mx, 1))
                        res.maxi('max_refinement_iterations', mx)
                        for f in fs:
                            res.fail(f)
                        if not fs:
                            res.count('traces')
                        if mx > 2:
                            res.count('nontrivial')
                            res.count('refinements_with_more_than_one_round')
        if first:
            first = False
            res.sample({'kind': kind, 'profile': prof, 'x': xs, 'y': ys})
    res.notes['%s_n_max_%s' % (kind, prof.split('+')[0])] = n


def replay(case):
    o = case['oracle']
    if o == 'basic':
        return check_basic(case['detector'], case['x'], case['y'])[1]
    if o == 'lm_get':
        return check_lm_getknee(case['x'], case['y'], case['fit'], case['cost'], case.get('loose', False))[1]
    return check_lm_knee(case['x'], case['y'], case['fit'], case['it'], case['limit'])[1]
