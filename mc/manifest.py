"""Regenerates /verif/MANIFEST.json from the property modules that exist.  python -m mc.manifest"""
import os
import json
import importlib

VERIF = os.path.dirname(os.path.dirname(os.path.abspath(__file__)))

BASELINE_OFF = ("cd /repo && /venv/bin/python -m pytest -ra -q -p no:cacheprovider --timeout=900 "
                "--continue-on-collection-errors")


def main():
    props = [json.loads(l) for l in open(os.path.join(VERIF, 'properties.jsonl'))]
    checks, na = [], []
    for p in props:
        pid = p['id']
        path = os.path.join(VERIF, 'mc', 'props', pid.lower() + '.py')
        if not os.path.exists(path):
            na.append({'property_id': pid, 'reason': 'check not built yet in this round (designed in DESIGN.md section 4); not claimed until it exists'})
            continue
        mod = importlib.import_module('mc.props.' + pid.lower())
        checks.append({
            'property_id': pid,
            'quick_cmd': './check %s quick' % pid,
            'thorough_cmd': './check %s thorough' % pid,
            'evidence_file': '/verif/evidence/%s.json' % pid,
            'replay_cmd_template': './check --replay {path}',
            'engine': 'mc',
            'level_claimed': {
                'category': 'model_checking',
                'text': mod.LEVEL_TEXT,
                'design_ref': 'DESIGN.md section 4, %s' % pid,
            },
            'level_note': mod.LEVEL_NOTE,
            'technique': mod.TECHNIQUE,
        })
    man = {
        'version': 1,
        'setup_cmd': '/venv/bin/python -m compileall -q /verif/mc >/dev/null 2>&1; /venv/bin/python -c "import sys; sys.path.insert(0, \'/verif\'); import mc.core"',
        'hooks': {
            'guard': 'KNEE_VERIF',
            'enable': 'no source hooks exist: observation uses sys.monitoring (loop monitor), callable seams and return values; the guard name is reserved and unused',
            'baseline_off_cmd': BASELINE_OFF,
            'source_commits': [],
            'add_only': True,
        },
        'engines': [{
            'name': 'mc',
            'path': '/verif/mc',
            'serves_properties': [c['property_id'] for c in checks],
            'kind_free_text': 'in-house bounded-exhaustive explorers for Python (product enumerator with strided shards, stateless choice-point explorer, explicit-state BFS) driving the real kneeliverse code under a sys.monitoring loop monitor, against reference transition systems written in plain Python / Fraction',
        }],
        'checks': checks,
        'not_applicable': na,
        'notes': 'All checks run the current working tree of /repo (sys.path[0] = /repo/src). VERIF_SEED rotates unit order and selects one extra pre-declared alphabet profile; enumeration inside the stated bounds is always complete. Known findings: /verif/known_findings.json.',
    }
    with open(os.path.join(VERIF, 'MANIFEST.json'), 'w') as fh:
        json.dump(man, fh, indent=1)
    print('MANIFEST.json: %d checks, %d not_applicable' % (len(checks), len(na)))


if __name__ == '__main__':
    main()
