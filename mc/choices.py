"""Stateless choice-point explorer (prefix replay, depth-first, optional deviation bound).

The code under test is run with scripted callables that ask `chooser.choose(k)` for one of k answers.
An execution is identified by its choice sequence.  `explore` replays a prefix, takes choice 0 afterwards,
and schedules every alternative of every later choice point - exactly the recursion of the brief.  A
replayed choice that is out of range is a hard error (divergence while replaying a prefix means the
harness lost determinism).
"""


class Divergence(Exception):
    pass


class Chooser:
    def __init__(self, prefix=()):
        self.prefix = tuple(prefix)
        self.trace = []          # (choice, number of alternatives)

    def choose(self, k):
        if k <= 0:
            raise Divergence('choice point with no alternative')
        i = len(self.trace)
        c = self.prefix[i] if i < len(self.prefix) else 0
        if c >= k:
            raise Divergence('replayed choice %d out of range %d at point %d' % (c, k, i))
        self.trace.append((c, k))
        return c

    def choices(self):
        return tuple(c for c, _ in self.trace)


def explore(run, bound=None, shard=None):
    """Enumerate every execution of run(chooser).  `bound` limits the number of non-default choices
    (deviations).  `shard=(k, K)` keeps only first-level subtrees i with i % K == k (the root execution
    belongs to shard 0).  Yields (chooser, value_of_run)."""
    stack = [()]
    while stack:
        prefix = stack.pop()
        ch = Chooser(prefix)
        val = run(ch)
        if len(ch.trace) < len(prefix):
            raise Divergence('execution asked fewer choices (%d) than the replayed prefix (%d)' % (len(ch.trace), len(prefix)))
        yield ch, val
        taken = ch.choices()
        for i in range(len(ch.trace) - 1, len(prefix) - 1, -1):
            c, k = ch.trace[i]
            dev = sum(1 for x in taken[:i] if x != 0)
            if bound is not None and dev + 1 > bound:
                continue
            for alt in range(k - 1, 0, -1):
                stack.append(taken[:i] + (alt,))


def explore_sharded(run, k, K, bound=None):
    """Same space as explore(), cut by the value of the FIRST non-default choice position/alternative:
    the executions are numbered in DFS order and shard k takes those whose root-level subtree index
    (enumeration order of alternatives of the root execution) is congruent to k mod K."""
    root = Chooser(())
    val = run(root)
    if k == 0:
        yield root, val
    taken = root.choices()
    idx = 0
    for i in range(len(root.trace) - 1, -1, -1):
        c, kk = root.trace[i]
        for alt in range(kk - 1, 0, -1):
            if idx % K == k and (bound is None or bound >= 1):
                for item in _explore_from(run, taken[:i] + (alt,), bound):
                    yield item
            idx += 1


def _explore_from(run, start, bound):
    stack = [start]
    while stack:
        prefix = stack.pop()
        ch = Chooser(prefix)
        val = run(ch)
        if len(ch.trace) < len(prefix):
            raise Divergence('execution asked fewer choices than the replayed prefix')
        yield ch, val
        taken = ch.choices()
        for i in range(len(ch.trace) - 1, len(prefix) - 1, -1):
            c, k = ch.trace[i]
            dev = sum(1 for x in taken[:i] if x != 0)
            if bound is not None and dev + 1 > bound:
                continue
            for alt in range(k - 1, 0, -1):
                stack.append(taken[:i] + (alt,))
