"""CLI:  python -m mc.run C07 quick|thorough      python -m mc.run --replay <file> [...]"""
import os
import sys
import json
import importlib

from mc import core


def load(prop_id):
    return importlib.import_module('mc.props.%s' % prop_id.lower())


def replay_unit(mod, body):
    """Replays the operation sequence of one unit (history-dependent violations)."""
    case = body['case']
    warm = getattr(mod, 'WARM', None)
    if warm is not None:
        warm()
    ok, t = core.rerun_unit_for(mod, core.totuple(case['unit']), case['expect_signature'], case['expect_key'], case.get('ordinal', 0))
    if not ok:
        return []
    func, kind = case['expect_signature'].split('|', 1)
    return [core.Failure(func, kind, case['expect_key'], case, t[3] if t else '')]


def main(argv):
    if not argv:
        print(__doc__)
        return 2
    if argv[0] == '--replay':
        rc = 0
        for path in argv[1:]:
            body = json.load(open(path))
            mod = load(body['property'])
            core.load_known(body['property'])
            if body['case'].get('oracle') == '__unit__':
                fails = fails2 = replay_unit(mod, body)
            else:
                from mc import curves as _cv
                _cv.set_int_mode(body['case'].get('__int64__', False))
                fails = mod.replay(body['case'])
                fails2 = mod.replay(body['case'])
            s1, s2 = sorted(set(f.sig for f in fails)), sorted(set(f.sig for f in fails2))
            if s1 != s2:
                print('HARNESS-ERROR non-deterministic replay %s: %s vs %s' % (path, s1, s2))
                return 2
            if fails:
                rc = 1
                for f in fails:
                    print('VIOLATION property=%s replay=%s' % (body['property'], os.path.abspath(path)))
                    print('  signature=%s\n  input=%s\n  detail=%s' % (f.sig, f.key[:300], str(f.detail)[:500]))
            else:
                print('replay %s: property holds on this case' % path)
        return rc
    prop_id = argv[0].upper()
    tier = argv[1] if len(argv) > 1 else os.environ.get('VERIF_TIER', 'quick')
    if tier not in ('quick', 'thorough'):
        print('unknown tier %r' % tier)
        return 2
    seed = int(os.environ.get('VERIF_SEED', '0') or 0)
    return core.run_check(load(prop_id), tier, seed)


if __name__ == '__main__':
    sys.exit(main(sys.argv[1:]))
