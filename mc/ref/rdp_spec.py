"""Reference transition system for the RDP family ("split machine").

State      : the set of retained indices (always contains 0 and n-1).
Transition : Split(a, b, s) adds an index s strictly inside a retained segment (a, b).

* threshold RDP (C04): Split(a,b,s) may fire only if the endpoint-line cost of points[a..b] is on the
  rejecting side of t, and s is (within rounding noise) the farthest interior point from the chord.  A
  state is terminal when every retained segment is accepting or has < 3 points.  `explain` decides whether
  an observed output is a terminal state REACHABLE in this machine (all admissible tie choices explored).
* fixed-size RDP (C05): Next(S) = states reachable by one greedy step: the split segment has the maximal
  ordering score among retained segments with interior points, s is farthest (or every distance is below
  the library's eps guard).
* abstract machine (C01): costs and split points are free choices; bounds the number of loop iterations.

Distances, endpoint fits and per-segment costs are the library's own primitives, as the statements say.
"""
import math
import numpy as np

from mc import lib
from mc.ref import metrics_spec as ms
import kneeliverse.linear_fit as lf
import kneeliverse.rdp as rdp

EPS = lib.EPS


def noise_tol(dmax, mag=1.0):
    """'not farther ... by more than rounding noise' (one-sided, explicit, RELATIVE to the data: 1e-9 of
    the largest distance plus 64 ulps of the largest coordinate magnitude - an absolute floor would make
    the clause vacuous on curves expressed in tiny units)."""
    return 1e-9 * dmax + 64 * EPS * mag


class Seg:
    """Per-curve table of the library's primitives on every index range [a, b] (inclusive)."""

    def __init__(self, pts, distance):
        self.pts = pts
        self.n = len(pts)
        self.distance = distance
        self.fn = lf.shortest_distance_points if distance == 'shortest' else lf.perpendicular_distance_points
        self._d = {}
        self._cost = {}
        self._score = {}
        amax = float(np.max(np.abs(pts))) if len(pts) else 1.0
        self.mag = amax

    def d(self, a, b):
        k = (a, b)
        v = self._d.get(k)
        if v is None:
            pt = self.pts[a:b + 1]
            v = np.asarray(self.fn(pt, pt[0], pt[-1]), dtype=float)
            self._d[k] = v
        return v

    def cost(self, metric, a, b):
        """Endpoint-line cost of points[a..b]; segments of <= 2 points are perfect fits."""
        k = (metric, a, b)
        v = self._cost.get(k)
        if v is None:
            if b - a + 1 <= 2:
                v = 1.0 if metric == 'r2' else 0.0
            else:
                pt = self.pts[a:b + 1]
                coef = lf.linear_fit_points(pt)
                v = float(rdp.compute_cost_coef(pt, coef, lib.METRIC[metric]))
            self._cost[k] = v
        return v

    def robust_cost(self, metric, a, b):
        pt = self.pts[a:b + 1]
        return ms.robust_cost(metric, pt[:, 0].tolist(), pt[:, 1].tolist())

    def farthest_ok(self, a, b, s):
        """Is s an admissible split of (a,b): within noise of the farthest interior point, or every
        distance below the library's eps guard (then any interior point is on the chord)."""
        d = self.d(a, b)
        if np.all(d < EPS):
            return True
        inner = d[1:-1]
        dmax = float(np.max(inner))
        ds = float(d[s - a])
        if not (dmax == dmax):       # NaN distances: undefined, accept
            return True
        return ds >= dmax - noise_tol(dmax, self.mag)

    def score(self, order, a, b):
        k = (order, a, b)
        v = self._score.get(k)
        if v is None:
            pt = self.pts[a:b + 1]
            if order == 'triangle':
                base = float(np.linalg.norm(pt[0] - pt[-1]))
                v = 0.5 * base * float(self.d(a, b).max())
            elif order == 'area':
                v = float(np.sum(self.d(a, b)))
            else:
                v = float(lf.linear_fit_residuals_points(pt))
            self._score[k] = v
        return v

    def score_floor(self, order):
        """Scores at or below this are rounding noise around an exactly collinear segment."""
        m = max(self.mag, 1e-300)
        if order == 'triangle':
            return 64 * EPS * m * m
        if order == 'area':
            return 64 * EPS * m * self.n
        return (64 * EPS * m) ** 2 * self.n


# ------------------------------------------------------------------------------------------------
# C04: reachability of an observed output in the threshold machine

AMBIG_REL = 1e-9


def side(metric, c, t):
    """'accept' | 'reject' | 'ambiguous' for a float cost c against threshold t (rule 3: a cost within
    1e-9 relative of t but not exactly t is accepted either way)."""
    if c != c:
        return 'ambiguous'          # NaN cost: outside the model
    if c == t:
        return 'tie'
    if abs(c - t) <= AMBIG_REL * max(1.0, abs(t)):
        return 'ambiguous'
    return 'accept' if lib.accepting(metric, c, t) else 'reject'


def tie_side(metric):
    """cost == t exactly: cost < t is false -> rejecting for error metrics; R2 >= t -> accepting."""
    return 'accept' if metric == 'r2' else 'reject'


def explain(seg, metric, t, S, stats=None):
    """Is S (sorted retained indices) a reachable terminal state?  Returns (ok, reason).
    A tie cost == t is decisive only when it is robust (bit-identical under three summation orders and a
    pure-Python evaluation); otherwise it is treated as ambiguous."""
    Sset = list(S)

    def rec(a, b, inner):
        c = seg.cost(metric, a, b)
        sd = side(metric, c, t)
        if sd == 'tie':
            rc = seg.robust_cost(metric, a, b) if (b - a + 1) > 2 else c
            if rc is not None and rc == c:
                sd = tie_side(metric)
                if stats is not None:
                    stats['decisive_ties'] = stats.get('decisive_ties', 0) + 1
            else:
                sd = 'ambiguous'
        if sd == 'ambiguous' and stats is not None:
            stats['ambiguous'] = stats.get('ambiguous', 0) + 1
        if not inner:
            if b - a + 1 <= 2:
                return True, ''
            if sd in ('accept', 'ambiguous'):
                return True, ''
            return False, 'retained segment [%d,%d] has rejecting cost %r vs t=%r' % (a, b, c, t)
        if b - a + 1 <= 2:
            return False, 'index inside a 2-point range [%d,%d]' % (a, b)
        if sd == 'accept':
            return False, 'range [%d,%d] with accepting cost %r (t=%r) was split at %s' % (a, b, c, t, inner)
        why = 'no retained index of %s is (within noise) farthest from chord [%d,%d]: d=%s' % (
            inner, a, b, seg.d(a, b).tolist())
        for s in inner:
            if seg.farthest_ok(a, b, s):
                okl, wl = rec(a, s, [i for i in inner if i < s])
                if not okl:
                    why = wl
                    continue
                okr, wr = rec(s, b, [i for i in inner if i > s])
                if not okr:
                    why = wr
                    continue
                return True, ''
        return False, why

    return rec(Sset[0], Sset[-1], Sset[1:-1])


# ------------------------------------------------------------------------------------------------
# C05: one greedy step

def splittable(S):
    return [(a, b) for a, b in zip(S, S[1:]) if b - a >= 2]


def next_ok(seg, order, S, s):
    """Is S + {s} a successor of S in the fixed-size machine?  Returns (ok, reason, competed) where
    competed = number of retained segments with interior points (>= 2 makes the ordering clause bite)."""
    segs = splittable(S)
    host = [(a, b) for a, b in segs if a < s < b]
    if not host:
        return False, 'gained index %d is not strictly inside a retained segment with interior points of %s' % (s, list(S)), len(segs)
    a, b = host[0]
    if not seg.farthest_ok(a, b, s):
        return False, 'gained index %d is not (within noise) the farthest interior point of [%d,%d]: d=%s' % (
            s, a, b, seg.d(a, b).tolist()), len(segs)
    scores = [seg.score(order, x, y) for x, y in segs]
    mx = max(scores)
    mine = seg.score(order, a, b)
    floor = seg.score_floor(order)
    if mx != mx or mine != mine:
        return True, '', len(segs)                     # NaN scores: outside the model
    if mx <= floor:
        return True, '', len(segs)                     # every candidate is collinear up to noise
    if mine >= mx * (1.0 - 1e-9) - floor:
        return True, '', len(segs)
    return False, 'segment [%d,%d] (score %r) was refined although %s has score %r (order=%s)' % (
        a, b, mine, segs[scores.index(mx)], mx, order), len(segs)


# ------------------------------------------------------------------------------------------------
# C01: abstract machines with free choices

def abstract_threshold_machine(n):
    """BFS over (LIFO work stack, pops so far) of threshold RDP where accept/split and the split index
    are free choices.  Returns (states, transitions, max_pops).  Claim checked by the caller:
    max_pops == 2n-3, i.e. the loop header is evaluated at most 2n-2 times."""
    from collections import deque
    init = (((0, n - 1),), 0)
    seen = {init}
    q = deque([init])
    trans = 0
    best = 0
    while q:
        st, pops = q.popleft()
        if not st:
            best = max(best, pops)
            continue
        (a, b), rest = st[-1], st[:-1]
        succ = [rest]                                  # accept
        for s in range(a + 1, b):                      # split strictly inside
            succ.append(rest + ((s, b), (a, s)))
        for nx in succ:
            trans += 1
            key = (nx, pops + 1)
            if key not in seen:
                seen.add(key)
                q.append(key)
    return len(seen), trans, best


def abstract_fixed_machine(n):
    """Fixed-size machine with free priorities: any pending segment (>= 3 points) may be split at any
    interior index.  Returns (states, transitions, max_steps); claim: max_steps == n-2."""
    from collections import deque
    init = frozenset([(0, n - 1)]) if n > 2 else frozenset()
    depth = {init: 0}
    q = deque([init])
    trans = 0
    best = 0
    while q:
        st = q.popleft()
        d = depth[st]
        best = max(best, d)
        for (a, b) in st:
            for s in range(a + 1, b):
                nx = set(st)
                nx.discard((a, b))
                if s - a >= 2:
                    nx.add((a, s))
                if b - s >= 2:
                    nx.add((s, b))
                nx = frozenset(nx)
                trans += 1
                if nx not in depth:
                    depth[nx] = d + 1
                    q.append(nx)
    return len(depth), trans, best
