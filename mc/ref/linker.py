"""A small model of Python name resolution, used by C20's static half.

For every module of the package the *current* source is parsed; every reference site is enumerated and
resolved against the live imported module objects:

  name       a Name load that the symbol table classifies as global -> must exist in the module namespace
             or in builtins;
  attribute  an attribute chain rooted in a global whose value is a module / class (e.g. lf.linear_fit,
             np.linalg.norm, metrics.Metrics.smape) -> every step must exist while the object is a module
             or a class (values of other types are not modelled);
  call       a call whose callee resolves to a Python function (or numba dispatcher) -> the positional /
             keyword shape of the call must bind to the callee's signature.

The model is validated against the implementation by C20's conformance step (sites on executed lines).
"""
import ast
import sys
import types
import inspect
import symtable
import builtins
import importlib


class Site:
    __slots__ = ('module', 'func', 'line', 'kind', 'text', 'ok', 'why', 'target', 'conditional')

    def __init__(self, module, func, line, kind, text, ok, why='', target=''):
        self.module, self.func, self.line, self.kind, self.text, self.ok, self.why, self.target = module, func, line, kind, text, ok, why, target
        self.conditional = False   # inside a short-circuit / conditional expression: executing the line does not imply evaluating the site

    def key(self):
        """Line-independent identification of the site (for known findings)."""
        return '%s.%s -> %s [%s]' % (self.module.split('.')[-1], self.func, self.text, self.kind)


def _chain(node):
    """a.b.c -> ['a','b','c'] for pure Name/Attribute chains, else None."""
    parts = []
    while isinstance(node, ast.Attribute):
        parts.append(node.attr)
        node = node.value
    if isinstance(node, ast.Name):
        parts.append(node.id)
        return list(reversed(parts))
    return None


def _global_names(table, out, path=''):
    """{function qualname: set of names that resolve to module scope} from the symbol table."""
    if table.get_type() == 'module':
        out['<module>'] = set(s.get_name() for s in table.get_symbols() if s.is_referenced())
    else:
        g = set()
        for s in table.get_symbols():
            if s.is_referenced() and s.is_global():
                g.add(s.get_name())
        out[path] = g
    for ch in table.get_children():
        _global_names(ch, out, (path + '.' if path else '') + ch.get_name())
    return out


def _resolve_chain(ns, parts):
    """Resolve a Name/Attribute chain against a namespace dict.  Returns (status, obj, failed_at) where
    status in 'ok', 'unresolved-name', 'unresolved-attribute', 'unknown' (stopped at a non-module value)."""
    root = parts[0]
    if root in ns:
        obj = ns[root]
    elif hasattr(builtins, root):
        obj = getattr(builtins, root)
    else:
        return 'unresolved-name', None, root
    for i, attr in enumerate(parts[1:], 1):
        if isinstance(obj, types.ModuleType) or isinstance(obj, type):
            if not hasattr(obj, attr):
                # lazily imported submodules
                if isinstance(obj, types.ModuleType):
                    try:
                        importlib.import_module(obj.__name__ + '.' + attr)
                    except Exception:  # noqa: BLE001
                        return 'unresolved-attribute', obj, '.'.join(parts[:i + 1])
                    if hasattr(obj, attr):
                        obj = getattr(obj, attr)
                        continue
                return 'unresolved-attribute', obj, '.'.join(parts[:i + 1])
            obj = getattr(obj, attr)
        else:
            return 'unknown', None, ''
    return 'ok', obj, ''


def _pyfunc(obj):
    if hasattr(obj, 'py_func'):
        return obj.py_func
    if isinstance(obj, types.FunctionType):
        return obj
    return None


class _Visitor(ast.NodeVisitor):
    def __init__(self, modname, ns, gnames, sites):
        self.modname, self.ns, self.gnames, self.sites = modname, ns, gnames, sites
        self.stack = []
        self.cond = 0

    def _add(self, site):
        site.conditional = self.cond > 0
        self.sites.append(site)

    def visit_IfExp(self, node):
        self.visit(node.test)
        self.cond += 1
        self.visit(node.body)
        self.visit(node.orelse)
        self.cond -= 1

    def visit_BoolOp(self, node):
        self.visit(node.values[0])
        self.cond += 1
        for v in node.values[1:]:
            self.visit(v)
        self.cond -= 1

    def _comp(self, node):
        self.cond += 1
        self.generic_visit(node)
        self.cond -= 1

    visit_ListComp = visit_SetComp = visit_DictComp = visit_GeneratorExp = _comp

    def qual(self):
        return '.'.join(self.stack) if self.stack else '<module>'

    def visit_FunctionDef(self, node):
        for d in node.decorator_list:
            self.visit(d)
        for a in list(node.args.defaults) + [d for d in node.args.kw_defaults if d is not None]:
            self.visit(a)
        self.stack.append(node.name)
        for st in node.body:
            self.visit(st)
        self.stack.pop()

    visit_AsyncFunctionDef = visit_FunctionDef

    def visit_Lambda(self, node):
        self.stack.append('lambda')
        self.cond += 1
        self.visit(node.body)
        self.cond -= 1
        self.stack.pop()

    def visit_ClassDef(self, node):
        self.stack.append(node.name)
        for st in node.body:
            self.visit(st)
        self.stack.pop()

    def _is_global(self, name):
        q = self.qual()
        # lambdas / comprehensions: fall back to "global if not bound anywhere in the enclosing function"
        while q not in self.gnames and '.' in q:
            q = q.rsplit('.', 1)[0]
        g = self.gnames.get(q)
        if g is None:
            return False
        return name in g

    def visit_Name(self, node):
        if isinstance(node.ctx, ast.Load) and self._is_global(node.id) and self.stack:
            ok = node.id in self.ns or hasattr(builtins, node.id)
            self._add(Site(self.modname, self.qual(), node.lineno, 'name', node.id, ok,
                                   '' if ok else 'name %r is not defined in module %s' % (node.id, self.modname)))

    def visit_Attribute(self, node):
        parts = _chain(node)
        if parts is None:
            self.generic_visit(node)
            return
        if isinstance(node.ctx, ast.Load) and (self._is_global(parts[0]) or not self.stack):
            st, obj, where = _resolve_chain(self.ns, parts)
            if st == 'unresolved-name':
                if self.stack:
                    self._add(Site(self.modname, self.qual(), node.lineno, 'name', parts[0], False,
                                           'name %r is not defined in module %s' % (parts[0], self.modname)))
            elif st == 'unresolved-attribute':
                self._add(Site(self.modname, self.qual(), node.lineno, 'attribute', '.'.join(parts), False,
                                       '%s has no attribute needed by %s' % (getattr(obj, '__name__', obj), where)))
            elif st == 'ok':
                self._add(Site(self.modname, self.qual(), node.lineno, 'attribute', '.'.join(parts), True))
        # do not descend: the chain has been handled as a whole

    def visit_Call(self, node):
        parts = _chain(node.func)
        if parts is not None and (self._is_global(parts[0]) or not self.stack):
            st, obj, _ = _resolve_chain(self.ns, parts)
            f = _pyfunc(obj) if st == 'ok' else None
            if f is not None and (f.__module__ or '').split('.')[0] in ('kneeliverse', 'uts'):
                if not any(isinstance(a, ast.Starred) for a in node.args) and not any(k.arg is None for k in node.keywords):
                    try:
                        inspect.signature(f).bind(*[None] * len(node.args), **{k.arg: None for k in node.keywords})
                        self._add(Site(self.modname, self.qual(), node.lineno, 'call', '.'.join(parts) + '(%d positional%s)' % (
                            len(node.args), ''.join(', ' + k.arg for k in node.keywords)), True, target=f.__module__ + '.' + f.__name__))
                    except TypeError as e:
                        self._add(Site(self.modname, self.qual(), node.lineno, 'call', '.'.join(parts) + '(%d positional%s)' % (
                            len(node.args), ''.join(', ' + k.arg for k in node.keywords)), False,
                            'call does not bind to %s%s: %s' % (f.__name__, inspect.signature(f), e), target=f.__module__ + '.' + f.__name__))
        self.visit(node.func)
        for a in node.args:
            self.visit(a)
        for k in node.keywords:
            self.visit(k.value)


def analyse(modname):
    """All reference sites of one module."""
    mod = importlib.import_module(modname)
    src = inspect.getsource(mod)
    tree = ast.parse(src)
    gnames = _global_names(symtable.symtable(src, mod.__file__, 'exec'), {})
    sites = []
    _Visitor(modname, vars(mod), gnames, sites).visit(tree)
    return sites, mod.__file__
