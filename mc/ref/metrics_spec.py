"""Textbook definitions of the regression metrics, in boring Python.

Three evaluation styles per metric:
  *_float(y, yh, order)  IEEE double, element-wise operations exactly as written in the definition,
                         summed left-to-right ('lr'), right-to-left ('rl') or with math.fsum ('fsum').
                         Used to decide whether a float value is *robust* (all orders agree bit-for-bit).
  *_exact(y, yh)         fractions.Fraction where the definition is rational (r2, residuals, mse).
  reference(y, yh)       math.fsum based, used for the 1e-12 definitional comparison (C16).
"""
import math
from fractions import Fraction

EPS_GUARD = 1e-16


def _sum(vals, order):
    if order == 'fsum':
        return math.fsum(vals)
    s = 0.0
    for v in (vals if order == 'lr' else reversed(list(vals))):
        s += v
    return s


def smape(y, yh, order='fsum', eps=EPS_GUARD):
    t = [2.0 * abs(b - a) / (abs(a) + abs(b) + eps) for a, b in zip(y, yh)]
    return _sum(t, order) / len(t)


def rpd(y, yh, order='fsum', eps=EPS_GUARD):
    t = [abs((a - b) / (max(a, b) + eps)) for a, b in zip(y, yh)]
    return _sum(t, order) / len(t)


def rmspe(y, yh, order='fsum', eps=EPS_GUARD):
    t = [((a - b) / (a + eps)) ** 2 for a, b in zip(y, yh)]
    return math.sqrt(_sum(t, order) / len(t))


def rmsle(y, yh, order='fsum'):
    t = [(math.log(a + 1) - math.log(b + 1)) ** 2 for a, b in zip(y, yh)]
    return math.sqrt(_sum(t, order) / len(t))


def rmse(y, yh, order='fsum'):
    t = [(a - b) ** 2 for a, b in zip(y, yh)]
    return math.sqrt(_sum(t, order) / len(t))


def residuals(y, yh, order='fsum'):
    return _sum([(a - b) ** 2 for a, b in zip(y, yh)], order)


def r2(y, yh, order='fsum', adjusted=False):
    n = len(y)
    mean = _sum(list(y), order) / n
    rss = _sum([(a - b) ** 2 for a, b in zip(y, yh)], order)
    tss = _sum([(a - mean) ** 2 for a in y], order)
    rv = 1.0 - rss if tss == 0 else 1.0 - rss / tss
    if adjusted:
        rv = 1.0 - (1.0 - rv) * ((n - 1) / (n - 2))
    return rv


def r2_exact(y, yh, adjusted=False):
    y = [Fraction(v) for v in y]
    yh = [Fraction(v) for v in yh]
    n = len(y)
    mean = sum(y) / n
    rss = sum((a - b) ** 2 for a, b in zip(y, yh))
    tss = sum((a - mean) ** 2 for a in y)
    rv = 1 - rss if tss == 0 else 1 - rss / tss
    if adjusted:
        rv = 1 - (1 - rv) * Fraction(n - 1, n - 2)
    return rv


def residuals_exact(y, yh):
    return sum((Fraction(a) - Fraction(b)) ** 2 for a, b in zip(y, yh))


FLOAT = {'smape': smape, 'rpd': rpd, 'rmspe': rmspe, 'rmsle': rmsle, 'rmse': rmse, 'residuals': residuals, 'r2': r2}


def endpoint_line(xs, ys):
    """(b, m) of the line through the first and last point, in IEEE double exactly as the definition
    m = (y0 - yn)/(x0 - xn), b = y0 - m*x0 reads."""
    d = xs[0] - xs[-1]
    if d != 0:
        m = (ys[0] - ys[-1]) / (xs[0] - xs[-1])
        b = ys[0] - (m * xs[0])
        return b, m
    return 0.0, 0.0


def endpoint_line_exact(xs, ys):
    x0, xn, y0, yn = Fraction(xs[0]), Fraction(xs[-1]), Fraction(ys[0]), Fraction(ys[-1])
    if x0 == xn:
        return Fraction(0), Fraction(0)
    m = (y0 - yn) / (x0 - xn)
    return y0 - m * x0, m


def robust_cost(metric, xs, ys):
    """Cost of the endpoint-line fit of (xs, ys) evaluated in three summation orders with plain IEEE
    arithmetic; returns the value if all three agree bit-for-bit, else None."""
    b, m = endpoint_line([float(v) for v in xs], [float(v) for v in ys])
    yh = [float(x) * m + b for x in xs]
    yy = [float(v) for v in ys]
    f = FLOAT[metric]
    vals = set()
    for order in ('lr', 'rl', 'fsum'):
        try:
            vals.add(f(yy, yh, order))
        except (ValueError, ZeroDivisionError, OverflowError):
            return None
    if len(vals) == 1:
        return vals.pop()
    return None
