"""Definitional recomputation of evaluation.compute_global_cost / compute_global_rmse / mip, in plain
Python IEEE arithmetic with selectable summation order (and math.fsum for the reference value)."""
import math

from mc.ref import metrics_spec as ms

EPS_GUARD = 1e-16


def _partial(metric, y, yh, order):
    if metric == 'r2':
        t = [(a - b) ** 2 for a, b in zip(y, yh)]
    elif metric == 'rmsle':
        t = [(math.log(a + 1) - math.log(b + 1)) ** 2 for a, b in zip(y, yh)]
    elif metric == 'rmspe':
        t = [((a - b) / (a + EPS_GUARD)) ** 2 for a, b in zip(y, yh)]
    elif metric == 'rpd':
        t = [abs((a - b) / (max(a, b) + EPS_GUARD)) for a, b in zip(y, yh)]
    else:
        t = [2.0 * abs(b - a) / (abs(a) + abs(b) + EPS_GUARD) for a, b in zip(y, yh)]
    return ms._sum(t, order)


def segment_error(metric, xs, ys, l, r, order='fsum'):
    """Error term of the retained segment [l, r] (both ends included); <= 2 points contribute 0."""
    if r - l + 1 <= 2:
        return 0.0
    sx = [float(v) for v in xs[l:r + 1]]
    sy = [float(v) for v in ys[l:r + 1]]
    b, m = ms.endpoint_line(sx, sy)
    yh = [x * m + b for x in sx]
    return _partial(metric, sy, yh, order)


def global_cost(metric, xs, ys, S, order='fsum'):
    n = len(xs)
    errs = [segment_error(metric, xs, ys, a, b, order) for a, b in zip(S, S[1:])]
    total = n + len(errs) - 1
    s = ms._sum(errs, order)
    if metric == 'r2':
        yy = [float(v) for v in ys]
        mean = ms._sum(yy, order) / n
        tss = ms._sum([(a - mean) ** 2 for a in yy], order)
        c = 1.0 - s if tss == 0 else 1.0 - s / tss
    elif metric in ('rmsle', 'rmspe'):
        c = math.sqrt(s / total)
    else:
        c = s / total
    return 0.0 if c < 0 else c


def exact_global_cost(metric, xs, ys, S):
    """The global cost as an exact rational number, or None where it is irrational (square roots, logarithms)."""
    from fractions import Fraction
    X = [Fraction(v) for v in xs]
    Y = [Fraction(v) for v in ys]
    n = len(X)
    eps = Fraction(1, 10 ** 16)
    s = Fraction(0)
    nseg = 0
    for a, b in zip(S, S[1:]):
        nseg += 1
        if b - a + 1 <= 2:
            continue
        for i in range(a, b + 1):
            yh = Y[a] if X[b] == X[a] else Y[a] + (Y[b] - Y[a]) * (X[i] - X[a]) / (X[b] - X[a])
            y = Y[i]
            if metric == 'r2':
                s += (y - yh) ** 2
            elif metric == 'rmsle':
                if y != yh:
                    return None
            elif metric == 'rmspe':
                s += ((y - yh) / (y + eps)) ** 2
            elif metric == 'rpd':
                s += abs((y - yh) / (max(y, yh) + eps))
            else:
                s += 2 * abs(yh - y) / (abs(y) + abs(yh) + eps)
    total = n + nseg - 1
    if metric == 'r2':
        mean = sum(Y) / n
        tss = sum((v - mean) ** 2 for v in Y)
        c = 1 - s if tss == 0 else 1 - s / tss
        return max(c, Fraction(0))
    if metric == 'rmsle':
        return Fraction(0)
    if metric == 'rmspe':
        R = s / total
        p, q = math.isqrt(R.numerator), math.isqrt(R.denominator)
        return Fraction(p, q) if p * p == R.numerator and q * q == R.denominator else None
    return s / total


def robust_global_cost(metric, xs, ys, S):
    """The float global cost if it is beyond doubt: the three summation orders agree AND the exact real value is that
    very double.  (A cost such as 1/3 or log 3 is a different double under every evaluation form - x m + b versus
    y0 + (x - x0) m, log a - log b versus log(a/b) - so a threshold equal to one of them decides nothing.)"""
    from fractions import Fraction
    vals = set()
    for order in ('lr', 'rl', 'fsum'):
        try:
            vals.add(global_cost(metric, xs, ys, S, order))
        except (ValueError, ZeroDivisionError, OverflowError):
            return None
    if len(vals) != 1:
        return None
    v = vals.pop()
    try:
        e = exact_global_cost(metric, xs, ys, S)
    except (ZeroDivisionError, ValueError, OverflowError):
        return None
    return v if (e is not None and v == v and abs(v) != float('inf') and Fraction(v) == e) else None


def interp(xs, ys, S, i):
    """Value at x_i of the piecewise-linear interpolation through the breakpoints S."""
    for a, b in zip(S, S[1:]):
        if a <= i <= b:
            if xs[b] == xs[a]:
                return float(ys[a])
            return ys[a] + (ys[b] - ys[a]) * (xs[i] - xs[a]) / (xs[b] - xs[a])
    raise ValueError(i)


def global_rmse(xs, ys, S):
    n = len(xs)
    return math.sqrt(math.fsum((float(ys[i]) - interp(xs, ys, S, i)) ** 2 for i in range(n)) / n)
