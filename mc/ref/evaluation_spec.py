"""Definitional recomputation of evaluation.compute_global_cost / compute_global_rmse / mip, in plain
Python IEEE arithmetic with selectable summation order (and math.fsum for the reference value)."""
import math

from mc.ref import metrics_spec as ms

EPS_GUARD = 1e-16


def _partial(metric, y, yh, order):
    if metric == 'r2':
        t = [(a - b) ** 2 for a, b in zip(y, yh)]
    elif metric == 'rmsle':
        t = [(math.log(a + 1) - math.log(b + 1)) ** 2 for a, b in zip(y, yh)]
    elif metric == 'rmspe':
        t = [((a - b) / (a + EPS_GUARD)) ** 2 for a, b in zip(y, yh)]
    elif metric == 'rpd':
        t = [abs((a - b) / (max(a, b) + EPS_GUARD)) for a, b in zip(y, yh)]
    else:
        t = [2.0 * abs(b - a) / (abs(a) + abs(b) + EPS_GUARD) for a, b in zip(y, yh)]
    return ms._sum(t, order)


def segment_error(metric, xs, ys, l, r, order='fsum'):
    """Error term of the retained segment [l, r] (both ends included); <= 2 points contribute 0."""
    if r - l + 1 <= 2:
        return 0.0
    sx = [float(v) for v in xs[l:r + 1]]
    sy = [float(v) for v in ys[l:r + 1]]
    b, m = ms.endpoint_line(sx, sy)
    yh = [x * m + b for x in sx]
    return _partial(metric, sy, yh, order)


def global_cost(metric, xs, ys, S, order='fsum'):
    n = len(xs)
    errs = [segment_error(metric, xs, ys, a, b, order) for a, b in zip(S, S[1:])]
    total = n + len(errs) - 1
    s = ms._sum(errs, order)
    if metric == 'r2':
        yy = [float(v) for v in ys]
        mean = ms._sum(yy, order) / n
        tss = ms._sum([(a - mean) ** 2 for a in yy], order)
        c = 1.0 - s if tss == 0 else 1.0 - s / tss
    elif metric in ('rmsle', 'rmspe'):
        c = math.sqrt(s / total)
    else:
        c = s / total
    return 0.0 if c < 0 else c


def robust_global_cost(metric, xs, ys, S):
    vals = set()
    for order in ('lr', 'rl', 'fsum'):
        try:
            vals.add(global_cost(metric, xs, ys, S, order))
        except (ValueError, ZeroDivisionError, OverflowError):
            return None
    return vals.pop() if len(vals) == 1 else None


def interp(xs, ys, S, i):
    """Value at x_i of the piecewise-linear interpolation through the breakpoints S."""
    for a, b in zip(S, S[1:]):
        if a <= i <= b:
            if xs[b] == xs[a]:
                return float(ys[a])
            return ys[a] + (ys[b] - ys[a]) * (xs[i] - xs[a]) / (xs[b] - xs[a])
    raise ValueError(i)


def global_rmse(xs, ys, S):
    n = len(xs)
    return math.sqrt(math.fsum((float(ys[i]) - interp(xs, ys, S, i)) ** 2 for i in range(n)) / n)
