"""Runner core: work units, sharding over processes, result merge, evidence,
VIOLATION / KNOWN-FINDING protocol, replay files.

Every property module (mc/props/cNN.py) exposes

    ID, TITLE, RULE (non-triviality rule, text), ASSUMPTIONS (list of str)
    units(tier, seed)        -> list of picklable unit descriptors (the whole bounded space, cut in pieces)
    run_unit(unit, res)      -> enumerates the unit completely, recording into res (a Result)
    replay(case)             -> list of Failure for one self-contained case (no explorer involved)
    WARM (optional)          -> callable run once in the parent before forking (numba JIT warm-up)

Nothing here samples: a unit is always enumerated completely; VERIF_SEED only rotates the order of the
units and selects one extra pre-declared alphabet profile.
"""
import os
import sys
import json
import time
import hashlib
import traceback
import multiprocessing as mp
import warnings

warnings.filterwarnings('ignore')

VERIF = os.path.dirname(os.path.dirname(os.path.abspath(__file__)))
REPO = os.environ.get('KNEE_REPO', '/repo')
REPO_SRC = os.path.join(REPO, 'src')
if REPO_SRC not in sys.path or sys.path[0] != REPO_SRC:
    sys.path.insert(0, REPO_SRC)

NPROC = int(os.environ.get('VERIF_NPROC', '16'))
MAX_VIOLATION_LINES = 20
KEYS_PER_SIG = 3


class Failure:
    """One violated clause for one concrete case."""
    __slots__ = ('func', 'kind', 'key', 'case', 'detail', 'size')

    def __init__(self, func, kind, key, case, detail='', size=0):
        self.func = func      # public function / site the clause is about
        self.kind = kind      # short failure kind, e.g. 'not-increasing', 'raises:ValueError'
        self.key = key        # canonical string naming the specific input / site (for known findings)
        self.case = case      # JSON-serialisable, self-contained replay case (contains 'oracle')
        self.detail = detail  # expected vs observed, free text
        self.size = size      # ordering key: smaller = simpler

    @property
    def sig(self):
        return '%s|%s' % (self.func, self.kind)


class UnitAbort(BaseException):
    """Raised when one unit has already recorded FAILFAST violations: the verdict is settled, the rest
    of the unit is skipped so that a badly broken tree (e.g. thousands of hangs) is reported quickly."""


FAILFAST = int(os.environ.get('VERIF_FAILFAST', '3000'))


class Result:
    """Accumulates what one unit (or the merged run) covered."""

    def __init__(self):
        self.c = {}            # counters (summed)
        self.mx = {}           # maxima
        self.viol = {}         # sig -> list of (size, key, case, detail) (KEYS_PER_SIG smallest distinct keys)
        self.nviol = {}        # sig -> count
        self.known_seen = {}   # (sig, key) -> count, violations that match a listed known finding
        self.samples = []      # a few explored cases, written out
        self.notes = {}        # free-form (e.g. largest n completed per profile)

    def count(self, name, k=1):
        self.c[name] = self.c.get(name, 0) + k

    def maxi(self, name, v):
        if v > self.mx.get(name, float('-inf')):
            self.mx[name] = v

    def sample(self, s, cap=3):
        if len(self.samples) < cap:
            self.samples.append(s)

    def fail(self, f):
        kf = KNOWN.get((f.sig, f.key))
        if kf is not None:
            self.known_seen[(f.sig, f.key)] = self.known_seen.get((f.sig, f.key), 0) + 1
            return
        self.nviol[f.sig] = self.nviol.get(f.sig, 0) + 1
        self._nfail = getattr(self, '_nfail', 0) + 1
        lst = self.viol.setdefault(f.sig, [])
        if any(t[1] == f.key for t in lst):
            return
        case = f.case
        if getattr(self, 'int_mode', False) and isinstance(case, dict):
            case = dict(case, __int64__=True)
        lst.append((f.size, f.key, case, f.detail))
        lst.sort(key=lambda t: (t[0], t[1]))
        del lst[KEYS_PER_SIG:]
        self.check_failfast()

    def check_failfast(self):
        if getattr(self, '_nfail', 0) >= FAILFAST:
            raise UnitAbort()

    def merge(self, o):
        for k, v in o.c.items():
            self.c[k] = self.c.get(k, 0) + v
        for k, v in o.mx.items():
            self.maxi(k, v)
        for sig, lst in o.viol.items():
            mine = self.viol.setdefault(sig, [])
            for t in lst:
                if not any(m[1] == t[1] for m in mine):
                    mine.append(t)
            mine.sort(key=lambda t: (t[0], t[1]))
            del mine[KEYS_PER_SIG:]
        for k, v in o.nviol.items():
            self.nviol[k] = self.nviol.get(k, 0) + v
        for k, v in o.known_seen.items():
            self.known_seen[k] = self.known_seen.get(k, 0) + v
        for s in o.samples:
            self.sample(s, cap=6)
        for k, v in o.notes.items():
            if isinstance(v, (int, float)) and isinstance(self.notes.get(k), (int, float)):
                self.notes[k] = max(self.notes[k], v)
            else:
                self.notes.setdefault(k, v)


# ------------------------------------------------------------------------------------------------
# known findings (read-only at run time)

KNOWN = {}


def load_known(prop_id):
    KNOWN.clear()
    path = os.path.join(VERIF, 'known_findings.json')
    if not os.path.exists(path):
        return
    data = json.load(open(path))
    for f in data.get('findings', []):
        if f.get('property') == prop_id:
            KNOWN[(f['signature'], f['key'])] = f


# ------------------------------------------------------------------------------------------------

def jsonable(o):
    import numpy as np
    if isinstance(o, dict):
        return {str(k): jsonable(v) for k, v in o.items()}
    if isinstance(o, (list, tuple)):
        return [jsonable(v) for v in o]
    if isinstance(o, np.ndarray):
        return jsonable(o.tolist())
    if isinstance(o, (np.integer,)):
        return int(o)
    if isinstance(o, (np.floating,)):
        return float(o)
    if isinstance(o, (np.bool_,)):
        return bool(o)
    if isinstance(o, float):
        if o != o:
            return 'nan'
        if o in (float('inf'), float('-inf')):
            return 'inf' if o > 0 else '-inf'
        return o
    if isinstance(o, (int, str, bool)) or o is None:
        return o
    if hasattr(o, 'numerator') and hasattr(o, 'denominator'):
        return float(o)
    return repr(o)


def _worker(args):
    mod_name, unit, ordinal = args
    mod = sys.modules[mod_name]
    res = Result()
    from mc import curves as _cv
    # every third unit presents integral curves as int64 arrays (the properties do not depend on the dtype)
    _cv.set_int_mode(ordinal % 3 == 1 and not getattr(mod, 'NO_INT_MODE', False))
    res.int_mode = _cv.INT_MODE
    if _cv.INT_MODE:
        res.count('units_with_integral_curves_as_int64')
    try:
        mod.run_unit(unit, res)
    except UnitAbort:
        res.count('units_aborted_after_%d_violations' % FAILFAST)
    except BaseException:
        return ('error', repr(unit), traceback.format_exc())
    for sig, lst in res.viol.items():
        res.viol[sig] = [t[:4] + ((unit, ordinal),) for t in lst]
    return ('ok', unit, res)


def _replay_sigs(args):
    mod_name, case = args
    mod = sys.modules[mod_name]
    from mc import curves as _cv
    _cv.set_int_mode(isinstance(case, dict) and case.get('__int64__', False))
    a = sorted(set(f.sig for f in mod.replay(case)))
    b = sorted(set(f.sig for f in mod.replay(case)))
    return a, b


def replay_in_child(mod, case):
    """Isolated replay (twice) in a freshly forked process, so that the parent's state is never touched
    and every forked worker / re-run starts from the same initial state."""
    ctx = mp.get_context('fork')
    with ctx.Pool(1, maxtasksperchild=1) as pool:
        return pool.apply(_replay_sigs, ((mod.__name__, case),))


def totuple(o):
    if isinstance(o, (list, tuple)):
        return tuple(totuple(v) for v in o)
    return o


def rerun_unit_for(mod, unit, sig, key, ordinal=0):
    """Re-run one unit in a freshly forked process (same initial state as the original worker, because
    every unit runs in its own forked child) and report whether (sig, key) is violated again.  This is
    the replay of an operation SEQUENCE, for violations that depend on earlier calls of the history."""
    ctx = mp.get_context('fork')
    with ctx.Pool(1, maxtasksperchild=1) as pool:
        status, _u, payload = pool.apply(_worker, ((mod.__name__, unit, ordinal),))
    if status != 'ok':
        return False, payload
    for t in payload.viol.get(sig, []):
        if t[1] == key:
            return True, t
    return sig in payload.nviol and False, None


def write_replay(prop_id, sig, key, case, detail):
    d = os.environ.get('VERIF_REPLAY_DIR') or os.path.join(VERIF, 'replays')
    os.makedirs(d, exist_ok=True)
    body = {'property': prop_id, 'signature': sig, 'key': key, 'case': jsonable(case), 'detail': detail}
    h = hashlib.sha1(json.dumps([sig, key], sort_keys=True).encode()).hexdigest()[:12]
    path = os.path.join(d, '%s-%s.json' % (prop_id, h))
    with open(path, 'w') as fh:
        json.dump(body, fh, indent=1, sort_keys=True)
    return path


def run_check(mod, tier, seed):
    """Run one property check; returns the process exit code."""
    t0 = time.time()
    prop_id = mod.ID
    load_known(prop_id)
    units = list(mod.units(tier, seed))
    if not units:
        print('HARNESS-ERROR property=%s no units' % prop_id)
        return 2
    # VERIF_SEED rotates the unit order only (the set of units is fixed per tier, plus the bonus profile
    # the module derived from the seed).
    tasks = [(mod.__name__, u, i) for i, u in enumerate(units)]
    r = seed % len(units)
    tasks = tasks[r:] + tasks[:r]
    warm = getattr(mod, 'WARM', None)
    if warm is not None:
        warm()
    total = Result()
    nproc = max(1, min(NPROC, len(units)))
    errors = []
    if nproc == 1 or os.environ.get('VERIF_SERIAL'):
        it = map(_worker, tasks)
        pool = None
    else:
        ctx = mp.get_context('fork')
        pool = ctx.Pool(nproc, maxtasksperchild=1)
        it = pool.imap_unordered(_worker, tasks, chunksize=1)
    done_units = 0
    for status, unit, payload in it:
        if status == 'error':
            errors.append((unit, payload))
            continue
        total.merge(payload)
        done_units += 1
        if total.nviol and os.environ.get('VERIF_STOP_ON_FIRST'):
            # tooling only (mutation campaigns): the verdict is settled, skip the remaining units
            if pool is not None:
                pool.terminate()
            total.count('stopped_after_first_violating_unit')
            break
    if pool is not None:
        if not (total.nviol and os.environ.get('VERIF_STOP_ON_FIRST')):
            pool.close()
        pool.join()
    if errors:
        for unit, tb in errors[:3]:
            print('HARNESS-ERROR property=%s unit=%s\n%s' % (prop_id, unit, tb))
        return 2

    # ---- confirm every reported violation by replaying its case without the explorer (determinism)
    lines = []
    unconfirmed = []
    for sig in sorted(total.viol, key=lambda s: (total.viol[s][0][0], s)):
        for entry in total.viol[sig][:1]:
            size, key, case, detail = entry[:4]
            unit, ordinal = entry[4] if len(entry) > 4 else (None, 0)
            try:
                sigs1, sigs2 = replay_in_child(mod, case)
            except BaseException:
                unconfirmed.append((sig, key, traceback.format_exc()))
                continue
            if sig in sigs1 and sigs1 == sigs2:
                path = write_replay(prop_id, sig, key, case, detail)
                lines.append((sig, key, path, detail))
                continue
            # not reproducible in isolation: does it depend on the history of earlier calls?  Replay the
            # whole operation sequence of the unit (deterministic enumeration) in a fresh forked process.
            ok, t = (False, None)
            if unit is not None:
                ok, t = rerun_unit_for(mod, unit, sig, key, ordinal)
            if ok:
                hcase = {'oracle': '__unit__', 'unit': jsonable(unit), 'ordinal': ordinal, 'expect_signature': sig, 'expect_key': key,
                         'isolated_case': jsonable(case)}
                hdetail = ('HISTORY-DEPENDENT: the isolated call satisfies the property, the same call inside the unit\'s '
                           'operation sequence does not (state leaks between calls). ' + str(detail))
                path = write_replay(prop_id, sig, key, hcase, hdetail)
                lines.append((sig, key, path, hdetail))
            else:
                unconfirmed.append((sig, key, 'replay gave %s then %s; unit re-run did not reproduce it either' % (sigs1, sigs2)))
    if unconfirmed:
        for sig, key, why in unconfirmed[:5]:
            print('HARNESS-ERROR property=%s non-reproducible violation sig=%s key=%s: %s' % (prop_id, sig, key, why))
        return 2

    # ---- known findings
    for (sig, key), f in sorted(KNOWN.items()):
        n = total.known_seen.get((sig, key), 0)
        if n:
            print('KNOWN-FINDING: property=%s %s [%s] (%d occurrence(s))' % (prop_id, f.get('what', sig), key, n))
        else:
            print('NOTE: property=%s listed known finding no longer observed: %s [%s]' % (prop_id, sig, key))

    nviol = sum(total.nviol.values())
    for sig, key, path, detail in lines[:MAX_VIOLATION_LINES]:
        print('VIOLATION property=%s replay=%s' % (prop_id, path))
        print('  signature=%s occurrences=%d' % (sig, total.nviol.get(sig, 0)))
        print('  input=%s' % key[:300])
        if detail:
            print('  detail=%s' % str(detail)[:500])
    if len(lines) > MAX_VIOLATION_LINES:
        print('  ... %d further violation signatures suppressed' % (len(lines) - MAX_VIOLATION_LINES))

    wall = time.time() - t0
    write_evidence(mod, tier, seed, total, wall, nviol, len(units))
    c = total.c
    print('%s %s seed=%d: units=%d evaluations=%d nontrivial=%d states=%d transitions=%d traces=%d '
          'violations=%d known=%d wall=%.1fs' % (
              prop_id, tier, seed, len(units), c.get('evaluations', 0), c.get('nontrivial', 0),
              c.get('states', 0), c.get('transitions', 0), c.get('traces', 0), nviol,
              sum(total.known_seen.values()), wall))
    extra = {k: v for k, v in sorted(c.items()) if k not in ('evaluations', 'nontrivial', 'states', 'transitions', 'traces')}
    if extra:
        print('  counters: ' + ' '.join('%s=%s' % kv for kv in extra.items()))
    if total.mx:
        print('  maxima: ' + ' '.join('%s=%s' % kv for kv in sorted(total.mx.items())))
    return 1 if nviol else 0


def write_evidence(mod, tier, seed, total, wall, nviol, nunits):
    c = dict(total.c)
    cov = {
        'evaluations': int(c.pop('evaluations', 0)),
        'distinct_nontrivial': int(c.pop('nontrivial', 0)),
        'rule': mod.RULE,
        'samples': jsonable(total.samples[:6]) or ['<none>'],
        'states': int(c.pop('states', 0)),
        'transitions': int(c.pop('transitions', 0)),
        'traces_validated_against_impl': int(c.pop('traces', 0)),
        'exhaustive': True,
        'units': nunits,
        'bounds': jsonable(getattr(mod, 'BOUNDS', {}).get(tier, {})),
        'counters': {k: int(v) for k, v in sorted(c.items())},
        'maxima': jsonable(total.mx),
        'notes': jsonable(total.notes),
        'known_findings_observed': sum(total.known_seen.values()),
        'violation_signatures': sorted(total.nviol),
    }
    ev = {
        'property_id': mod.ID,
        'tier': tier,
        'seed': int(seed),
        'level': 'model_checking',
        'coverage': cov,
        'assumptions': list(getattr(mod, 'ASSUMPTIONS', [])),
        'wall_s': round(wall, 2),
        'violations': int(nviol),
    }
    d = os.environ.get('VERIF_EVIDENCE_DIR') or os.path.join(VERIF, 'evidence')
    os.makedirs(d, exist_ok=True)
    tmp = os.path.join(d, '.%s.json.tmp' % mod.ID)
    with open(tmp, 'w') as fh:
        json.dump(ev, fh, indent=1)
    os.replace(tmp, os.path.join(d, '%s.json' % mod.ID))


def chunks(seq, k):
    """Cut an index range 0..len-1 into k strided shards (i, k)."""
    return [(i, k) for i in range(k)]
