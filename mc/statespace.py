"""Explicit-state breadth-first search with canonicalisation.

    bfs(initial_states, events, step, canon, invariant)

* a state is any python object; `canon(state)` gives its hashable canonical form (the correctness argument
  for merging is the caller's: merged states must have the same futures);
* `step(state, event)` returns (next_state, observation) - it must not mutate `state`;
* `invariant(state, event, next_state, observation)` returns None or a violation description.
Returns dict(states, transitions, violations=[(history, event, description)], depth).  Histories are kept
per state (shortest event sequence reaching it from an initial state) so every violation is replayable.
"""
from collections import deque


def bfs(initial, events, step, canon, invariant, max_states=200000):
    seen = {}
    q = deque()
    for name, st in initial:
        c = canon(st)
        if c not in seen:
            seen[c] = (name,)
            q.append((st, (name,)))
    transitions = 0
    violations = []
    depth = 0
    capped = False
    while q:
        st, hist = q.popleft()
        depth = max(depth, len(hist) - 1)
        for ev in events:
            nxt, obs = step(st, ev)
            transitions += 1
            bad = invariant(st, ev, nxt, obs)
            if bad is not None:
                violations.append((hist, ev, bad))
                if len(violations) > 50:
                    return dict(states=len(seen), transitions=transitions, violations=violations, depth=depth, capped=True)
            c = canon(nxt)
            if c not in seen:
                if len(seen) >= max_states:
                    capped = True
                    continue
                seen[c] = hist + (ev,)
                q.append((nxt, hist + (ev,)))
    return dict(states=len(seen), transitions=transitions, violations=violations, depth=depth, capped=capped)
