"""Curve alphabets ("profiles") with random access, so that a bounded space can be cut into strided
shards without materialising it.  A curve is x0 + cumulative gaps and a y vector; the space of a
profile at length n is the full product  x0s x gaps^(n-1) x ys^n, ordered simplest-first
(lexicographic, alphabets ordered as listed)."""
import itertools
import numpy as np


class Profile:
    def __init__(self, name, x0s, gaps, ys, must_contain=None, sx=1.0, sy=1.0, yflip=None, xshift=0.0):
        self.name = name
        self.x0s = tuple(x0s)
        self.gaps = tuple(gaps)
        self.ys = tuple(ys)
        # exclusivity filter: keeps profiles disjoint (a curve must use a letter no earlier profile has)
        self.must_contain = None if must_contain is None else frozenset(must_contain)
        self.sx, self.sy, self.yflip, self.xshift = sx, sy, yflip, xshift

    def size(self, n):
        return len(self.x0s) * len(self.gaps) ** (n - 1) * len(self.ys) ** n

    def letters(self, n, i):
        """Index -> (x0, gaps tuple, ys tuple) in the raw alphabet."""
        ny, ng = len(self.ys), len(self.gaps)
        yd = []
        for _ in range(n):
            i, r = divmod(i, ny)
            yd.append(self.ys[r])
        gd = []
        for _ in range(n - 1):
            i, r = divmod(i, ng)
            gd.append(self.gaps[r])
        x0 = self.x0s[i]
        return x0, tuple(reversed(gd)), tuple(reversed(yd))

    def coords(self, n, i):
        """Index -> (xs, ys) as python floats/ints after the profile's embedding; None if filtered out."""
        x0, gd, yd = self.letters(n, i)
        if self.must_contain is not None and not (self.must_contain & set(yd)):
            return None
        xs = [x0]
        for g in gd:
            xs.append(xs[-1] + g)
        ys = list(yd)
        if self.yflip is not None:
            ys = [self.yflip - v for v in ys]
        if self.sx != 1.0 or self.xshift:
            xs = [v * self.sx + self.xshift for v in xs]
        if self.sy != 1.0:
            ys = [v * self.sy for v in ys]
        return xs, ys

    def shard(self, n, k, K):
        """All curves of shard k of K (strided) as (index, xs, ys)."""
        for i in range(k, self.size(n), K):
            c = self.coords(n, i)
            if c is not None:
                yield i, c[0], c[1]

    def restrict(self, name=None, x0s=None, gaps=None, ys=None):
        return Profile(name or self.name, x0s or self.x0s, gaps or self.gaps, ys or self.ys,
                       self.must_contain, self.sx, self.sy, self.yflip, self.xshift)

    def embed(self, name, sx=1.0, sy=1.0, yflip=None, xshift=0.0):
        return Profile(name, self.x0s, self.gaps, self.ys, self.must_contain, sx, sy, yflip, xshift)


INT_MODE = False     # set per unit by the runner: integral curves are then presented as int64 arrays


def set_int_mode(flag):
    global INT_MODE
    INT_MODE = bool(flag)


_LAST = {'key': None, 'arr': None}


def points(xs, ys, dtype=float):
    """The n x 2 array of a curve.  Consecutive requests for the same curve return the SAME array object, as a
    user sweeping options over one curve would pass it: state keyed on the identity of the argument, or written
    into it, then shows up in the next call (the oracles work from the xs / ys lists, never from this array)."""
    key = (tuple(xs), tuple(ys), dtype, INT_MODE)
    if _LAST['key'] == key:
        return _LAST['arr']
    a = np.array([xs, ys], dtype=dtype).T.copy()
    if INT_MODE and dtype is float and a.size and bool(np.all(a == np.round(a))) and bool(np.all(np.abs(a) < 2 ** 53)):
        a = a.astype(np.int64)
    _LAST['key'], _LAST['arr'] = key, a
    return a


A = Profile('A', (0, 1), (1, 2, 3), (0, 1, 2, 3))
B = Profile('B', (0,), (1, 2), (0, 9, 18, 27), must_contain=(9, 18, 27))
C = Profile('C', (0,), (1, 3), (0, 0.1, 0.3, 1), must_contain=(0.1, 0.3))
P = Profile('P', (0,), (1, 2), (1, 2, 3, 5))
M = Profile('M', (1,), (1, 2), (0, 0.25, 0.5, 1))
A13 = A.restrict('A13', gaps=(1, 3))
A12 = A.restrict('A12', x0s=(0,), gaps=(1, 2))
A1 = A.restrict('A1', x0s=(0,), gaps=(1,))
Y013 = Profile('Y013', (0,), (1,), (0, 1, 3))
G12Y013 = Profile('G12Y013', (0,), (1, 2), (0, 1, 3))

PROFILES = {p.name: p for p in (A, B, C, P, M, A13, A12, A1, Y013, G12Y013)}

# "huge / tiny magnitudes": exact (power of two) and inexact rescalings
SCALES = [(1.0, 2.0 ** -60), (1.0, 2.0 ** 60), (2.0 ** -40, 1.0), (2.0 ** 40, 2.0 ** 40),
          (1.0, 1e-300), (1e6, 1e-6), (1.0, 2.0 ** 500)]

# bonus re-embeddings of A; VERIF_SEED selects one (every one is enumerated completely when selected,
# and every one was validated silent on the unchanged tree)
BONUS = [
    dict(xshift=2.0 ** 10),
    dict(sy=2.0 ** 7),
    dict(yflip=3),
    dict(xshift=2.0 ** 20, sy=2.0 ** -5),
    dict(sx=2.0 ** 3, yflip=3),
    dict(sx=2.0 ** -4, sy=2.0 ** 3),
]


def bonus(seed, base=A):
    kw = BONUS[seed % len(BONUS)]
    name = base.name + '+' + ','.join('%s=%r' % (k, float(v)) for k, v in sorted(kw.items()))
    return register(base.embed(name, **kw))


def register(p):
    PROFILES[p.name] = p
    return p


def get(name):
    """Profile by name; bonus / scaled profiles are re-derived from their name."""
    if name in PROFILES:
        return PROFILES[name]
    base, _, mods = name.partition('+')
    kw = {}
    for item in mods.split(','):
        k, _, v = item.partition('=')
        kw[k] = float(v)
    return register(PROFILES[base].embed(name, **kw))


def scaled(base, sx, sy):
    return register(base.embed('%s+sx=%r,sy=%r' % (base.name, float(sx), float(sy)), sx=sx, sy=sy))


TINY = [(1.0, 2.0 ** -34), (2.0 ** -20, 2.0 ** -27), (1.0, 2.0 ** 34)]


def tiny_family(base):
    """Exact power-of-two re-embeddings used to expose absolute tolerances (np.isclose / allclose / fixed
    eps) that are wrong for curves expressed in tiny or huge units."""
    return [scaled(base, sx, sy) for sx, sy in TINY]


class TraceProfile:
    """Every contiguous window of length n of a bundled trace (optionally strided), with the same interface
    as Profile: real-data (non-dyadic) values and longer curves, still a completely enumerated finite family."""

    def __init__(self, name, fname, stride=1, maxpoints=None):
        self.name, self.fname, self.stride, self.maxpoints = name, fname, stride, maxpoints
        self._pts = None

    def pts(self):
        if self._pts is None:
            import os
            from mc import core
            p = np.genfromtxt(os.path.join(core.REPO, 'traces', self.fname), delimiter=',')
            p = p[::self.stride]
            if self.maxpoints:
                p = p[:self.maxpoints]
            self._pts = p
        return self._pts

    def size(self, n):
        return max(0, len(self.pts()) - n + 1)

    def coords(self, n, i):
        w = self.pts()[i:i + n]
        return [float(v) for v in w[:, 0]], [float(v) for v in w[:, 1]]

    def shard(self, n, k, K):
        for i in range(k, self.size(n), K):
            xs, ys = self.coords(n, i)
            yield i, xs, ys


TWEB = register(TraceProfile('Tweb0r', 'web0_reduced.csv'))
TUSR = register(TraceProfile('Tusr0s64', 'usr0.csv', 64))
TUSR8 = register(TraceProfile('Tusr0s8', 'usr0.csv', 8, 400))


def subsets_with_ends(n):
    """All index subsets of {0..n-1} containing 0 and n-1, by size then lexicographic."""
    inner = list(range(1, n - 1))
    for k in range(len(inner) + 1):
        for c in itertools.combinations(inner, k):
            yield (0,) + c + (n - 1,)
