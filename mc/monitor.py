"""Loop/step monitor built on sys.monitoring (CPython 3.12): no source hooks.

Every `while` and `for` loop of the package is located by parsing the *current* source with ast at
start-up (so the monitor follows edits and line shifts).  A LINE event on the loop's counting line
(the header of `while <cond>`, the first body statement of `while True` / `for`) increments a counter
that is kept per *activation* (frame) of the enclosing function.  Exceeding the budget raises
StepBudgetExceeded inside the monitored code, which aborts the call: an execution that would hang
becomes a replayable counterexample.  Wall-clock time is never a verdict.
"""
import ast
import sys
import types
import inspect
import importlib

TOOL = 3  # a free tool id (0 debugger, 1 coverage, 2 profiler, 5 optimizer)
MON = sys.monitoring

PACKAGE_MODULES = [
    'kneeliverse.clustering', 'kneeliverse.convex_hull', 'kneeliverse.curvature', 'kneeliverse.dfdt',
    'kneeliverse.evaluation', 'kneeliverse.knee_ranking', 'kneeliverse.kneedle', 'kneeliverse.linear_fit',
    'kneeliverse.lmethod', 'kneeliverse.menger', 'kneeliverse.metrics', 'kneeliverse.multi_knee',
    'kneeliverse.postprocessing', 'kneeliverse.rdp', 'kneeliverse.zmethod',
]


class StepBudgetExceeded(BaseException):
    """Raised inside monitored code when one loop activation exceeds the budget."""

    def __init__(self, where, line, count):
        BaseException.__init__(self, '%s line %d: %d iterations' % (where, line, count))
        self.where = where
        self.line = line
        self.count = count


_LOOPS = {}      # code object -> {line: kind}
_counts = {}     # (frame, line) -> count
_state = {'budget': 10 ** 9, 'max': 0, 'total': 0, 'installed': False}


def _code_objects(code):
    yield code
    for c in code.co_consts:
        if isinstance(c, types.CodeType):
            yield from _code_objects(c)


def _module_codes(mod):
    seen = set()
    for name, obj in vars(mod).items():
        f = obj
        if hasattr(f, 'py_func'):           # numba dispatcher
            f = f.py_func
        if isinstance(f, types.FunctionType) and f.__module__ == mod.__name__:
            for c in _code_objects(f.__code__):
                if c not in seen:
                    seen.add(c)
                    yield c
        elif isinstance(f, type) and f.__module__ == mod.__name__:
            for v in vars(f).values():
                if isinstance(v, types.FunctionType):
                    for c in _code_objects(v.__code__):
                        if c not in seen:
                            seen.add(c)
                            yield c


def _loop_lines(tree, include_for=False):
    """{counting line: kind} for every loop in the module source."""
    out = {}
    for node in ast.walk(tree):
        if isinstance(node, ast.While):
            const_true = isinstance(node.test, ast.Constant) and bool(node.test.value)
            if const_true:
                out[node.body[0].lineno] = 'while-true'
            else:
                out[node.lineno] = 'while'
        elif include_for and isinstance(node, ast.For):
            out[node.body[0].lineno] = 'for'
    return out


def _on_line(code, line):
    d = _LOOPS.get(code)
    if d is None:
        return MON.DISABLE
    kind = d.get(line)
    if kind is None:
        return MON.DISABLE
    fr = sys._getframe(1)
    k = (fr, line)
    n = _counts.get(k, 0) + 1
    _counts[k] = n
    _state['total'] += 1
    if n > _state['max']:
        _state['max'] = n
    if n > _state['budget']:
        raise StepBudgetExceeded(code.co_name, line, n)
    return None


def install(include_for=False):
    """Locate all loops of the package in its current source and enable LINE events on them.
    `for` loops are bounded by their (finite) iterables and are not counted unless asked."""
    if _state['installed']:
        return
    MON.use_tool_id(TOOL, 'knee-verif-loop-monitor')
    MON.register_callback(TOOL, MON.events.LINE, _on_line)
    for name in PACKAGE_MODULES:
        mod = importlib.import_module(name)
        try:
            src = inspect.getsource(mod)
        except OSError:
            continue
        lines = _loop_lines(ast.parse(src), include_for)
        for code in _module_codes(mod):
            mine = set(l for (_, _, l) in code.co_lines() if l)
            # lines of nested code objects are not lines of this one
            sel = {l: k for l, k in lines.items() if l in mine}
            if sel:
                _LOOPS[code] = sel
                MON.set_local_events(TOOL, code, MON.events.LINE)
    _state['installed'] = True


def loops_found():
    return sum(len(v) for v in _LOOPS.values())


def run(budget, fn, *args, **kw):
    """Call fn under a per-activation loop budget.  Returns (value, max_iterations_of_any_activation,
    total_iterations).  StepBudgetExceeded propagates to the caller."""
    _counts.clear()
    _state['budget'] = budget
    _state['max'] = 0
    _state['total'] = 0
    try:
        v = fn(*args, **kw)
    finally:
        _state['budget'] = 10 ** 9
        mx, tot = _state['max'], _state['total']
        _counts.clear()
    return v, mx, tot
